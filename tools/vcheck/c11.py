"""C11 — the syntax trees of a specification reflect the source exactly and round-trip."""
import json
import os

from . import common as C
from . import specfam as S
from . import lrfam as L
from . import regexfam as R
from . import docgrammar as D
from . import c01
from . import c12

PROP = "C11"
PREDEFS = {}

CASES_V = """(* GENERATED: typed trees built by ebnf ast.Parse vs the model; grammar derived from the typed tree vs spec.Parse *)
From Coq Require Import String List Bool NArith.
From Verif Require Import Reg.MaxMunch Cfg.Ebnf Cfg.Translate Emerge.SpecModel Emerge.Pipeline Emerge.TypedTree Emerge.TypedSpec.
From VerifGen Require Import RuneGo.
Import ListNotations.
Local Open Scope N_scope.
Local Open Scope string_scope.
(* observed: None = ast.Parse returned an error; Some (name, declarations) *)
Definition case := (list N * option (string * list tdecl))%%type.
Definition has_bad (l : list tdecl) : bool := existsb (fun d => match d with TDBadPredef _ _ => true | _ => false end) l.
Definition agrees (c : case) : bool :=
  match front (fst c), snd c with
  | FSpec name ds, Some (n, obs) =>
    let m := typed_spec predefs_s ds in
    negb (has_bad m) && String.eqb name n && list_eqb tdecl_eqb m obs
  | FSpec _ ds, None => has_bad (typed_spec predefs_s ds)
  | FSyntaxError, None | FLexError, None => true
  | _, _ => false
  end.
(* every typed tree observed is in normal form and survives printing and rebuilding (the theorems, on the observations) *)
Definition body_ok (r : trhs) : bool := match r with TEmpty => true | _ => normal r && trhs_eqb (ast_value (unparse r)) r end.
Definition shape_ok (c : case) : bool :=
  match snd c with
  | Some (_, obs) => forallb (fun d => match d with
                                       | TDRule _ r => body_ok r
                                       | TDPrec _ hs => forallb (fun h => match h with THProd _ r => body_ok r | _ => true end) hs
                                       | _ => true
                                       end) obs
  | None => true
  end.
Definition cases : list case := [
%(cases)s
].
Definition M := Eval vm_compute in mismatches agrees 0 cases.
Print M.
Definition K := Eval vm_compute in mismatches shape_ok 0 cases.
Print K.
(* the grammar derived from the structure of the observed typed tree == the productions spec.Parse derived *)
Definition seteq_prods (a b : list (string * sstr)) : bool :=
  forallb (fun p => pmem p b) a && forallb (fun p => pmem p a) b.
Definition gcase := (list tdecl * list (string * sstr))%%type.
Definition gagrees (c : gcase) : bool := seteq_prods (s_prods (translate_spec (map decl_of_tdecl (fst c)))) (snd c).
Definition gcases : list gcase := [
%(gcases)s
].
Definition W := Eval vm_compute in mismatches gagrees 0 gcases.
Print W.
"""

EDGE = [
    "grammar g", "grammar g;", "grammar g\n", "grammar g; s = ;", "grammar g; s = ; s = ;", 'grammar g; s = "x" | ;', 'grammar g; s = "x" | | "y";',
    'grammar g; s = (("x"));', 'grammar g; s = ("x" "y") "z";', 'grammar g; s = "x" ("y" "z");', 'grammar g; s = ("x" | "y") | "z";',
    'grammar g; s = "x" | ("y" | "z");', 'grammar g; s = ("x" | "y") "z" | "w";', 'grammar g; s = [("x")] {("y" "z")} {{("a" | "b")}};',
    'grammar g; s = ' + "(" * 8 + '"x"' + ")" * 8 + ";", 'grammar g; s = ' + "[{" * 4 + '"x" s' + "}]" * 4 + ";",
    'grammar g; s = ' + "{{[" * 3 + '"x" | s |' + "]}}" * 3 + ";",
    'grammar g; AA = "a\\"b"; RX = /a\\/b+/; ID = $ID; @left AA "x" <s = s AA s> <t = >; @right ID; @none "y";\ns = s AA s | ID | ; t = ;',
    'grammar g; @left <s = ("x" | "y") s> <s = {s} [s] {{s}}>; s = "x";', 'grammar g; AA = $NOPE; s = AA;', 'grammar g; s = "a\\\\" "\\"" ;',
    'grammar g; s = ("x" |) | "y";', 'grammar g; s = ["p" | | "q"];', 'grammar g; s = "a" | ("b" |) | "c" "d";', 'grammar g; s = | "x";' if False else 'grammar g; s = "x" | | | "y" |;',
    "grammar g; s = t u; t = ; u = t | ;", 'grammar g\nAA = "x"\ns = AA t\nt = {AA | "q"} [t]\n',
]


# ---------------------------------------------------------------- oracle: typed tree with positions from the dictated parse tree
def go_quote(s):
    return '"' + s.replace("\\", "\\\\").replace('"', '\\"') + '"'


def go_unquote(q):
    out, i, body = [], 0, q[1:-1]
    while i < len(body):
        if body[i] == "\\" and i + 1 < len(body):
            out.append(body[i + 1])
            i += 2
        else:
            out.append(body[i])
            i += 1
    return "".join(out)


class Oracle:
    def __init__(self, toks):
        self.toks = toks      # [kind, lexeme, off, line, col]

    def pos(self, leaf):
        t = self.toks[leaf[2]]
        return [t[2], t[3], t[4]]

    def lex(self, leaf):
        return self.toks[leaf[2]][1]

    def first_leaf(self, n):
        while n[0] != "leaf":
            if not n[2]:
                return None
            n = n[2][0]
        return n

    def term_name(self, term_node):
        leaf = term_node[2][0]
        return go_quote(self.lex(leaf)) if leaf[1] == "STRING" else self.lex(leaf)

    def rhs(self, n):
        kids = n[2]
        if len(kids) == 1:
            k = kids[0]
            if k[3] == "nonterm":
                return {"k": "nt", "name": self.lex(k[2][0]), "pos": self.pos(k[2][0])}
            return {"k": "t", "name": self.term_name(k), "pos": self.pos(k[2][0])}
        if len(kids) == 2 and kids[1][0] == "leaf":          # rhs "|"
            a = self.rhs(kids[0])
            return {"k": "alt", "ops": (a["ops"] if a["k"] == "alt" else [a]) + [{"k": "empty"}]}
        if len(kids) == 2:                                    # rhs rhs
            a, b = self.rhs(kids[0]), self.rhs(kids[1])
            return {"k": "concat", "ops": (a["ops"] if a["k"] == "concat" else [a]) + (b["ops"] if b["k"] == "concat" else [b])}
        if kids[0][0] == "leaf":                              # bracket rhs bracket
            inner = self.rhs(kids[1])
            kind = {"(": None, "[": "opt", "{": "star", "{{": "plus"}[kids[0][1]]
            return inner if kind is None else {"k": kind, "op": inner, "pos": self.pos(kids[0])}
        a, b = self.rhs(kids[0]), self.rhs(kids[2])           # rhs "|" rhs
        return {"k": "alt", "ops": (a["ops"] if a["k"] == "alt" else [a]) + (b["ops"] if b["k"] == "alt" else [b])}

    def rule(self, n):
        lhs_leaf = n[2][0][2][0][2][0]
        body = self.rhs(n[2][2]) if len(n[2]) == 3 else {"k": "empty"}
        return self.lex(lhs_leaf), body, self.pos(lhs_leaf)

    def handles(self, n):
        kids = n[2]
        prev = self.handles(kids[0]) if len(kids) == 2 else []
        h = kids[-1]
        if h[3] == "term":
            return prev + [{"k": "term_handle", "name": self.term_name(h), "pos": self.pos(h[2][0])}]
        lhs, body, _ = self.rule(h[2][1])
        return prev + [{"k": "prod_handle", "lhs": lhs, "rhs": body, "pos": self.pos(h[2][0])}]

    def decl(self, n):
        inner = n[2][0]
        if inner[3] == "token":
            name, val = inner[2][0], inner[2][2]
            if val[1] == "STRING":
                return {"k": "string_token", "name": self.lex(name), "value": self.lex(val), "pos": self.pos(name)}
            if val[1] == "REGEX":
                return {"k": "regex_token", "name": self.lex(name), "value": self.lex(val), "pos": self.pos(name)}
            return {"k": "predef", "name": self.lex(name), "value": self.lex(val), "pos": self.pos(name)}
        if inner[3] == "directive":
            kw = inner[2][0]
            return {"k": "precedence", "assoc": {"@left": "LEFT", "@right": "RIGHT", "@none": "NONE"}[kw[1]],
                    "handles": self.handles(inner[2][1]), "pos": self.pos(kw)}
        lhs, body, p = self.rule(inner)
        return {"k": "rule", "lhs": lhs, "rhs": body, "pos": p}

    def grammar(self, n):
        name = n[2][0]
        decls, d = [], n[2][1]
        while d[2]:
            decls.append(self.decl(d[2][1]))
            d = d[2][0]
        decls.reverse()
        return {"name": self.lex(name[2][1]), "pos": self.pos(name[2][0]), "decls": decls}


def rd_tree(toks):
    rd = D.RD([t[0] for t in toks], lambda head, body: 0)
    try:
        t = rd.grammar()
        return t
    except (SyntaxError, ValueError):
        return None


# ---------------------------------------------------------------- printer (typed tree JSON -> EBNF text)
def print_rhs(r, in_concat=False):
    k = r["k"]
    if k == "t":
        return ('"' + go_unquote(r["name"]) + '"') if r["name"].startswith('"') else r["name"]
    if k == "nt":
        return r["name"]
    if k == "concat":
        return " ".join(print_rhs(o, True) for o in r["ops"])
    if k == "alt":
        s = ""
        for i, o in enumerate(r["ops"]):
            if i == 0:
                s = print_rhs(o)
            elif o["k"] == "empty":
                s += " |"
            else:
                s += " | " + print_rhs(o)
        return "(" + s + ")" if in_concat else s
    if k == "opt":
        return "[" + print_rhs(r["op"]) + "]"
    if k == "star":
        return "{ " + print_rhs(r["op"]) + " }"        # "{{" is one token: a star directly inside a star needs the space
    if k == "plus":
        return "{{ " + print_rhs(r["op"]) + " }}"      # "{{{" reads as "{{" "{" and "}}}" as "}}" "}": keep the brackets apart
    return ""


def print_tree(g):
    out = ["grammar %s;" % g["name"]]
    for d in g["decls"]:
        if d["k"] == "string_token":
            out.append('%s = "%s";' % (d["name"], d["value"]))
        elif d["k"] == "regex_token":
            out.append("%s = /%s/;" % (d["name"], d["value"]))
        elif d["k"] == "precedence":
            hs = []
            for h in d["handles"]:
                if h["k"] == "term_handle":
                    hs.append(('"' + go_unquote(h["name"]) + '"') if h["name"].startswith('"') else h["name"])
                else:
                    hs.append("<%s = %s>" % (h["lhs"], print_rhs(h["rhs"])))
            out.append("@%s %s;" % (d["assoc"].lower(), " ".join(hs)))
        else:
            out.append("%s = %s;" % (d["lhs"], print_rhs(d["rhs"])))
    return "\n".join(out) + "\n"


def strip_pos(x):
    if isinstance(x, dict):
        return {k: strip_pos(v) for k, v in x.items() if k != "pos"}
    if isinstance(x, list):
        return [strip_pos(v) for v in x]
    return x


# ---------------------------------------------------------------- Coq terms
def trhs_term(r):
    k = r["k"]
    if k == "t":
        lit = r["name"].startswith('"')
        return "TTerm %s %s" % (C.coq_string(go_unquote(r["name"]) if lit else r["name"]), "true" if lit else "false")
    if k == "nt":
        return "TNT %s" % C.coq_string(r["name"])
    if k in ("concat", "alt"):
        return "%s [%s]" % ("TConcat" if k == "concat" else "TAlt", "; ".join("(%s)" % trhs_term(o) if o["k"] != "empty" else "TEmpty" for o in r["ops"]))
    if k in ("opt", "star", "plus"):
        return "%s (%s)" % ({"opt": "TOpt", "star": "TStar", "plus": "TPlus"}[k], trhs_term(r["op"]))
    return "TEmpty"


def tdecl_term(d):
    if d["k"] == "string_token":
        return "TDString %s %s" % (C.coq_string(d["name"]), C.coq_string(d["value"]))
    if d["k"] == "regex_token":
        return "TDRegex %s %s" % (C.coq_string(d["name"]), C.coq_string(d["value"]))
    if d["k"] == "precedence":
        hs = []
        for h in d["handles"]:
            if h["k"] == "term_handle":
                lit = h["name"].startswith('"')
                hs.append("THTerm %s %s" % (C.coq_string(go_unquote(h["name"]) if lit else h["name"]), "true" if lit else "false"))
            else:
                hs.append("THProd %s (%s)" % (C.coq_string(h["lhs"]), trhs_term(h["rhs"])))
        return "TDPrec %d [%s]" % ({"LEFT": 0, "RIGHT": 1, "NONE": 2}[d["assoc"]], "; ".join(hs))
    return "TDRule %s (%s)" % (C.coq_string(d["lhs"]), trhs_term(d["rhs"]))


def gen_normal_rhs(rng, names, depth):
    """A random typed tree in normal form (printed, it is a specification whose groups are exactly the needed ones)."""
    k = rng.random()
    if depth <= 0 or k < 0.3:
        return rng.choice([{"k": "nt", "name": rng.choice(names)}, {"k": "t", "name": go_quote(rng.choice(["+", "x", "if", "(", "-"]))}, {"k": "t", "name": "NUM"}])
    if k < 0.55:
        ops = [gen_normal_rhs(rng, names, depth - 1) for _ in range(rng.randint(2, 4))]
        flat = []
        for o in ops:
            flat += o["ops"] if o["k"] == "concat" else [o]
        return {"k": "concat", "ops": flat}
    if k < 0.75:
        ops = [gen_normal_rhs(rng, names, depth - 1) for _ in range(rng.randint(2, 3))]
        flat = []
        for o in ops:
            flat += o["ops"] if o["k"] == "alt" else [o]
        if rng.random() < 0.25:
            flat.append({"k": "empty"})
        return {"k": "alt", "ops": flat}
    return {"k": rng.choice(["opt", "star", "plus"]), "op": gen_normal_rhs(rng, names, depth - 1)}


def gen_normal_spec(rng):
    names = rng.sample(["a", "b", "c", "expr", "term"], rng.randint(1, 3))
    decls = [{"k": "rule", "lhs": n, "rhs": gen_normal_rhs(rng, names, rng.randint(0, 3)) if rng.random() > 0.1 else {"k": "empty"}} for n in ["start"] + names]
    decls.append({"k": "regex_token", "name": "NUM", "value": "[0-9]+"})
    rng.shuffle(decls)
    return print_tree({"name": "g", "decls": decls})


def check(tier):
    rep = C.Report(PROP, tier, "proof")
    rng = C.rng_for(PROP)
    try:
        c01.regen_all()
    except C.BuildError as e:
        rep.obligation("translate sources", False)
        rep.violation("translator", {"theorem": "generated tables cannot be regenerated", "detail": str(e)}, no_input=True)
        return rep.finish()
    ok, log = C.coq_make(["theories/Props/C11.vo", "theories/Emerge/Pipeline.vo", "theories/Emerge/TypedSpec.vo"])
    for t in ["generic_tree_reflects_the_tokens", "generic_tree_has_the_documented_nesting", "every_documented_reading_is_built",
              "juxtaposition_operands_in_written_order", "alternation_operands_in_written_order",
              "trailing_bar_is_an_empty_operand", "typed_trees_are_normal", "print_and_build_again", "print_and_build_again_any", "declarations_keep_their_order",
              "typed_tree_denotes_the_written_language", "printed_tree_same_language"]:
        rep.obligation("Props/C11.v: " + t, ok)

    global PREDEFS
    PREDEFS = R.translate_misc()["predefs"]
    texts = list(EDGE)
    for _ in range(60 if tier == "quick" else 1500):
        texts.append(S.gen_wellformed(rng))
    for _ in range(40 if tier == "quick" else 800):
        texts.append(c12.gen_spec(rng))
    normal_specs = [gen_normal_spec(rng) for _ in range(40 if tier == "quick" else 800)]
    texts += normal_specs
    texts = [t for t in dict.fromkeys(texts) if S.printable(t)]
    normal_set = set(normal_specs)

    asts = C.hook_map([{"op": "ast", "text": t} for t in texts], timeout_each=20)
    lexes = C.hook_map([{"op": "lex", "text": t} for t in texts], timeout_each=20)
    gens = C.hook_map([{"op": "parse_trace", "mode": "ast", "text": t} for t in texts], timeout_each=20)
    dist = {"typed_trees": 0, "errors": 0, "generic_trees": 0, "round_trips": 0, "max_depth": 0, "declarations": 0, "group_normal": 0}
    cases, gcases, problems = [], [], []
    printed_reqs, printed_of = [], {}
    for t, a, lx, gt in zip(texts, asts, lexes, gens):
        if not a or a.get("outcome") in ("panic", "crash", "slow"):
            rep.failure("crash", {"crash"}, {"input_text": t, "result": a})
            continue
        toks = (lx or {}).get("tokens", [])
        if a.get("outcome") == "error":
            dist["errors"] += 1
            cases.append((t, None))
            continue
        tree = a["tree"]
        dist["typed_trees"] += 1
        dist["declarations"] += len(tree["decls"])
        cases.append((t, tree))
        # (a) generic tree: leaves are the tokens, left to right, with their positions
        if gt and gt.get("tree"):
            dist["generic_trees"] += 1
            leaves = []

            def walk(n):
                if n[0] == "leaf":
                    leaves.append([n[1], n[2]] + n[3])
                else:
                    for c in n[4]:
                        walk(c)
            walk(gt["tree"])
            if leaves != [[k[0], k[1], k[2], k[3], k[4]] for k in toks]:
                problems.append(("generic-leaves", t, {"leaves": leaves[:12], "tokens": toks[:12]}))
        # (b) typed tree == oracle (structure, names, positions)
        rd = rd_tree(toks)
        if rd is not None:
            exp = Oracle(toks).grammar(rd)
            for d in exp["decls"]:
                if d["k"] == "predef":
                    d["k"] = "regex_token"
                    d["value"] = PREDEFS.get(d["value"], d["value"])
            if strip_pos(exp) != strip_pos(tree) and not any(d["k"] == "regex_token" and d["value"].startswith("$") for d in exp["decls"]):
                problems.append(("typed-structure", t, {"observed": strip_pos(tree), "expected": strip_pos(exp)}))
            elif not any(d["k"] == "regex_token" and d["value"].startswith("$") for d in exp["decls"]):
                po, pe = json.dumps(tree, sort_keys=True), json.dumps(exp, sort_keys=True)
                if po != pe:
                    problems.append(("typed-positions", t, {"observed": tree, "expected": exp}))
        # (c) print, parse again
        p1 = print_tree(tree)
        printed_of[t] = p1
        printed_reqs.append((t, tree, p1))
    res2 = C.hook_map([{"op": "ast", "text": p1, "again": p1} for _, _, p1 in printed_reqs], timeout_each=20)
    specs_orig = C.hook_map([{"op": "spec", "text": t} for t, _, _ in printed_reqs], timeout_each=20)
    for (t, tree, p1), r2, so in zip(printed_reqs, res2, specs_orig):
        if not r2 or r2.get("outcome") != "ok":
            problems.append(("reparse-failed", t, {"printed": p1, "result": r2}))
            continue
        dist["round_trips"] += 1
        if strip_pos(r2["tree"]) != strip_pos(tree):
            problems.append(("round-trip", t, {"printed": p1, "first": strip_pos(tree), "second": strip_pos(r2["tree"])}))
        if not (r2.get("equal") and r2.get("equal_reverse")):
            problems.append(("equal-not-reflexive", t, {"printed": p1}))
        if print_tree(r2["tree"]) != p1:
            problems.append(("print-not-idempotent", t, {"printed": p1, "printed_again": print_tree(r2["tree"])}))
        # (d) the grammar from the typed tree's structure, for specifications whose groups are exactly the needed ones
        if t in normal_set and so and so.get("outcome") == "ok" and so.get("spec"):
            dist["group_normal"] += 1
            gcases.append((tree["decls"], so["spec"]["productions"], t))
    # (c') Equal() is what "an equal tree" rests on: it must be EXACT - two trees whose dumps differ anywhere (a position moved by one
    #      inserted blank, a bracket one column further, a line end written CRLF) are not equal, in either direction
    import re as _re
    eq_reqs = []
    for t, tree, p1 in printed_reqs[:(40 if tier == "quick" else 400)]:
        gaps = [m.start() for m in _re.finditer(r"[ \n]", t)]
        if not gaps:
            continue
        k = gaps[rng.randrange(len(gaps))]
        eq_reqs.append((t, t[:k] + " " + t[k:]))
        if "\n" in t.rstrip("\n"):
            eq_reqs.append((t, t.replace("\n", "\r\n", 1)))
    eq_reqs += [("grammar g; x = a [ b];\n", "grammar g; x = a  [b];\n"), ("grammar g; x = a | { b};\n", "grammar g; x = a |  {b};\n"),
                ("grammar g; @left <x = a {{ b}}>;\nx = a;\n", "grammar g; @left <x = a  {{b}}>;\nx = a;\n"), ("grammar g; x =\r\n a b;\n", "grammar g; x =\n a b;\n")]
    eq_res = C.hook_map([{"op": "ast", "text": a_, "again": b_} for a_, b_ in eq_reqs], timeout_each=20)
    dist["equal_pairs"] = 0
    for (a_, b_), r_ in zip(eq_reqs, eq_res):
        if not r_ or r_.get("outcome") != "ok" or "again_tree" not in r_:
            continue
        dist["equal_pairs"] += 1
        same = json.dumps(r_["tree"], sort_keys=True) == json.dumps(r_["again_tree"], sort_keys=True)
        if bool(r_.get("equal")) != same or bool(r_.get("equal_reverse")) != same:
            problems.append(("equal-not-exact", a_, {"other_text": b_, "dumps_identical": same, "Equal": r_.get("equal"), "Equal_reverse": r_.get("equal_reverse")}))
    kinds = set()
    for kind, t, detail in problems:
        if kind in kinds:
            continue
        kinds.add(kind)
        rep.failure(kind, {kind}, dict({"input_text": t}, **detail))
    rep.obligation("generic tree: leaves == significant tokens with positions (%d trees)" % dist["generic_trees"], not any(p[0] == "generic-leaves" for p in problems))
    rep.obligation("typed tree == independent reading of the dictated parse tree: structure, names, operand order, positions (%d trees)" % dist["typed_trees"],
                   not any(p[0] in ("typed-structure", "typed-positions") for p in problems))
    rep.obligation("print -> parse again: equal structure, Equal() holds, printing is idempotent (%d round trips)" % dist["round_trips"],
                   not any(p[0] in ("reparse-failed", "round-trip", "equal-not-reflexive", "equal-not-exact", "print-not-idempotent") for p in problems))

    # Coq: typed tree of the model == observed; observed trees normal and stable; grammar from the typed tree == spec.Parse's
    shards = [cases[i:i + 60] for i in range(0, len(cases), 60)]
    gsh = [gcases[i:i + 60] for i in range(0, len(gcases), 60)]
    paths = []
    for i in range(max(len(shards), len(gsh))):
        cs = shards[i] if i < len(shards) else []
        gs = gsh[i] if i < len(gsh) else []
        path = os.path.join(C.GEN, "cases_C11_%d.v" % i)
        with open(path, "w") as f:
            f.write(CASES_V % {
                "cases": ";\n".join("(%s, %s)" % (C.coq_nat_list(C.codepoints(t)),
                                                  "None" if tr is None else "Some (%s, [%s])" % (C.coq_string(tr["name"]), "; ".join(tdecl_term(d) for d in tr["decls"])))
                                    for t, tr in cs),
                "gcases": ";\n".join("([%s], %s)" % ("; ".join(tdecl_term(d) for d in ds), S.prods_term(pr)) for ds, pr, _ in gs)})
        paths.append((path, cs, gs))
    outs = C.coqc_many([p for p, _, _ in paths], timeout=900)
    bad_m, bad_k, bad_w, broken = [], [], [], []
    for (path, cs, gs), (okc, out) in zip(paths, outs):
        if not okc:
            broken.append((path, out[-1500:]))
            continue
        bad_m += [cs[i] for i in C.parse_mismatches(out, "M")]
        bad_k += [cs[i] for i in C.parse_mismatches(out, "K")]
        bad_w += [gs[i] for i in C.parse_mismatches(out, "W")]
    rep.obligation("ast.Parse == Coq model (front end + typed_spec) on %d texts" % len(cases), not bad_m and not broken)
    rep.obligation("observed typed trees are normal and ast_value (unparse r) = r by computation", not bad_k and not broken)
    rep.obligation("grammar derived from the typed tree == productions of spec.Parse on %d group-normal specifications" % len(gcases), not bad_w and not broken)
    for t, tr in bad_m[:2]:
        rep.failure("model", {"model"}, {"input_text": t, "observed": strip_pos(tr) if tr else "error"})
    for t, tr in bad_k[:2]:
        rep.failure("not-normal", {"not-normal"}, {"input_text": t, "observed": strip_pos(tr)})
    for ds, pr, t in bad_w[:2]:
        rep.failure("grammar-from-tree", {"grammar-from-tree"}, {"input_text": t, "typed": strip_pos(ds), "productions": pr})
    for path, out in broken[:1]:
        rep.violation("cases", {"theorem": os.path.basename(path) + " does not compile", "log": out}, no_input=True)

    rep.cov["evaluations"] = len(texts) * 4
    rep.cov["distinct_nontrivial"] = len(texts)
    rep.cov["input_distribution"] = dist
    rep.cov["rule"] = ("edge specifications (no declarations, empty rules, nesting to depth 8, every declaration kind, escapes in literals and patterns, optional "
                       "semicolons), generated well-formed specifications, specifications with directives and rule handles, and specifications printed from "
                       "random normal typed trees; every text goes through ast.Parse, the scanner, ParseAndBuildAST, my printer and ast.Parse again")
    rep.cov["partial"] = ["the concrete round trip (printer -> scanner -> parser) is checked per instance: completeness of the LALR parse (lr_complete) is not proved",
                          "PRODUCTION-SET equality of the grammar derived from the typed tree is per instance and for group-normal specifications (the typed tree drops "
                          "redundant parentheses, for which spec.Parse synthesises a non-terminal); LANGUAGE equality is the theorem printed_tree_same_language"]
    if not ok and not rep.violations:
        rep.violation("proof", {"theorem": "Props/C11.v", "log": log[-2500:]}, no_input=True)
    return rep.finish()


def replay(path):
    d = json.load(open(path))
    print(json.dumps({k: d[k] for k in d if k != "log"}, indent=1)[:3000])
    return 1
