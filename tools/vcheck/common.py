"""Shared machinery of the checks: paths, Go environment, hook build cache, Coq build,
evidence, violations, known findings, deterministic PRNG."""
import contextlib
import fcntl
import hashlib
import json
import os
import random
import shutil
import subprocess
import sys
import time

VERIF = os.path.dirname(os.path.dirname(os.path.dirname(os.path.abspath(__file__))))
REPO = os.environ.get("VERIF_REPO", "/repo")
WORK = os.path.join(VERIF, ".work")
COQ = os.path.join(VERIF, "coq")
GEN = os.path.join(COQ, "gen")
BIN = os.path.join(VERIF, "bin")
EVID = os.path.join(VERIF, "evidence")
REPLAY = os.path.join(VERIF, "replay")
TOOLS = os.path.join(VERIF, "tools")

COQ_ARGS = ["-Q", os.path.join(COQ, "theories"), "Verif", "-Q", GEN, "VerifGen"]


def go_env():
    env = dict(os.environ)
    env.update({"GOFLAGS": "-mod=mod", "GOPROXY": "off", "CGO_ENABLED": env.get("CGO_ENABLED", "0")})
    env.pop("GOSUMDB", None)  # GOSUMDB=off breaks verification of the cached go1.24.0 toolchain
    env.setdefault("GOCACHE", os.path.join(WORK, "gocache"))
    return env


def go_env_local():
    env = go_env()
    env["GOTOOLCHAIN"] = "local"
    return env


def ensure_dirs():
    for d in (WORK, GEN, BIN, EVID, REPLAY):
        os.makedirs(d, exist_ok=True)


@contextlib.contextmanager
def flock(name):
    ensure_dirs()
    path = os.path.join(WORK, name + ".lock")
    with open(path, "w") as f:
        fcntl.flock(f, fcntl.LOCK_EX)
        try:
            yield
        finally:
            fcntl.flock(f, fcntl.LOCK_UN)


def run(cmd, cwd=None, env=None, timeout=1200, input=None, check=False):
    p = subprocess.run(cmd, cwd=cwd, env=env, timeout=timeout, input=input,
                       stdout=subprocess.PIPE, stderr=subprocess.PIPE, text=True)
    if check and p.returncode != 0:
        raise RuntimeError("command failed: %s\n%s\n%s" % (cmd, p.stdout[-4000:], p.stderr[-4000:]))
    return p


def repo_hash():
    """Hash of every file of /repo's working tree that can influence a build."""
    h = hashlib.sha256()
    for root, dirs, files in os.walk(REPO):
        dirs[:] = sorted(d for d in dirs if d not in (".git",))
        for fn in sorted(files):
            if fn.endswith((".go", ".tmpl", ".mod", ".sum", ".md", ".grammar")):
                p = os.path.join(root, fn)
                h.update(os.path.relpath(p, REPO).encode())
                with open(p, "rb") as f:
                    h.update(hashlib.sha256(f.read()).digest())
    return h.hexdigest()[:20]


_REPO_HASH = None


def cached_repo_hash():
    global _REPO_HASH
    if _REPO_HASH is None:
        _REPO_HASH = repo_hash()
    return _REPO_HASH


class BuildError(Exception):
    pass


def build_tools():
    """Build the stdlib-only Go tools of /verif (gotrans). Rebuilt when their sources change."""
    ensure_dirs()
    with flock("tools"):
        h = hashlib.sha256()
        for root, dirs, files in os.walk(os.path.join(TOOLS, "gotrans")):
            for fn in sorted(files):
                with open(os.path.join(root, fn), "rb") as f:
                    h.update(f.read())
        stamp = os.path.join(BIN, "gotrans.stamp")
        cur = h.hexdigest()
        if os.path.exists(os.path.join(BIN, "gotrans")) and os.path.exists(stamp) and open(stamp).read() == cur:
            return
        p = run(["go", "build", "-o", os.path.join(BIN, "gotrans"), "./gotrans"], cwd=TOOLS, env=go_env_local())
        if p.returncode != 0:
            raise BuildError("gotrans build failed:\n" + p.stderr)
        with open(stamp, "w") as f:
            f.write(cur)


def hook_path():
    """Build /repo's verification hook (tag verif) from the current working tree; cached by content hash."""
    ensure_dirs()
    h = cached_repo_hash()
    d = os.path.join(WORK, "hook-" + h)
    exe = os.path.join(d, "verifhook")
    with flock("hook"):
        if os.path.exists(exe):
            return exe
        # drop stale hook builds
        for n in os.listdir(WORK):
            if n.startswith("hook-") and n != "hook-" + h:
                shutil.rmtree(os.path.join(WORK, n), ignore_errors=True)
        os.makedirs(d, exist_ok=True)
        p = run(["go", "build", "-tags", "verif", "-o", exe, "./internal/verifhook"], cwd=REPO, env=go_env())
        if p.returncode != 0:
            p2 = run(["go1.26.8", "build", "-tags", "verif", "-o", exe, "./internal/verifhook"], cwd=REPO, env=go_env_local())
            if p2.returncode != 0:
                shutil.rmtree(d, ignore_errors=True)
                raise BuildError("hook build failed:\n" + p.stderr + p2.stderr)
        return exe


class Hook:
    """A running verifhook process; one JSON request per line."""

    def __init__(self):
        self.exe = hook_path()
        self.p = None

    def start(self):
        self.p = subprocess.Popen([self.exe], stdin=subprocess.PIPE, stdout=subprocess.PIPE,
                                  stderr=subprocess.DEVNULL, text=True, bufsize=1)

    def call(self, req, timeout=None):
        if self.p is None or self.p.poll() is not None:
            self.start()
        try:
            self.p.stdin.write(json.dumps(req) + "\n")
            self.p.stdin.flush()
            if timeout is not None:
                import select
                r, _, _ = select.select([self.p.stdout], [], [], timeout)
                if not r:
                    self.p.kill()
                    self.p.wait()
                    self.p = None
                    return {"outcome": "slow", "timeout_s": timeout}
            line = self.p.stdout.readline()
        except BrokenPipeError:
            line = ""
        if not line:
            # the process died (fatal error that recover() cannot catch, e.g. stack overflow or concurrent map write)
            rc = self.p.wait()
            self.p = None
            return {"outcome": "crash", "rc": rc}
        return json.loads(line)

    def close(self):
        if self.p is not None:
            try:
                self.p.stdin.close()
                self.p.wait(timeout=5)
            except Exception:
                self.p.kill()
            self.p = None


def hook_map(reqs, timeout_each=20, workers=8):
    """Run requests through a pool of hook processes, each request under its own time limit."""
    from concurrent.futures import ThreadPoolExecutor
    import threading
    local = threading.local()
    hooks = []

    def one(req):
        h = getattr(local, "h", None)
        if h is None:
            h = local.h = Hook()
            hooks.append(h)
        return h.call(req, timeout=timeout_each)

    with ThreadPoolExecutor(max_workers=workers) as ex:
        out = list(ex.map(one, reqs))
    for h in hooks:
        h.close()
    return out


def hook_batch(reqs, timeout=600):
    """Run many requests through one hook process; returns the responses in order.
    If the process dies part-way the remaining requests are retried one by one."""
    exe = hook_path()
    out = []
    i = 0
    while i < len(reqs):
        data = "".join(json.dumps(r) + "\n" for r in reqs[i:])
        try:
            p = subprocess.run([exe], input=data, stdout=subprocess.PIPE, stderr=subprocess.DEVNULL,
                               text=True, timeout=timeout)
            lines = [l for l in p.stdout.split("\n") if l.strip()]
        except subprocess.TimeoutExpired as e:
            so = e.stdout or ""
            if isinstance(so, bytes):
                so = so.decode("utf-8", "replace")
            lines = [l for l in so.split("\n") if l.strip()]
            res = []
            for l in lines:
                try:
                    res.append(json.loads(l))
                except Exception:
                    break
            out.extend(res)
            i += len(res)
            out.append({"outcome": "hang"})
            i += 1
            continue
        res = []
        for l in lines:
            try:
                res.append(json.loads(l))
            except Exception:
                break
        out.extend(res)
        i += len(res)
        if i < len(reqs) and len(res) < len(data.splitlines()):
            out.append({"outcome": "crash", "rc": p.returncode})
            i += 1
    return out


# ---------------------------------------------------------------- Coq

def write_if_changed(path, content):
    try:
        if open(path).read() == content:
            return False
    except FileNotFoundError:
        pass
    os.makedirs(os.path.dirname(path), exist_ok=True)
    tmp = path + ".tmp%d" % os.getpid()
    with open(tmp, "w") as f:
        f.write(content)
    os.replace(tmp, path)
    return True


def coq_make(targets=None, timeout=1500):
    """Incremental full-.vo build of the development (coq_makefile + make -j16).  Returns (ok, log)."""
    with flock("coq"):
        mk = os.path.join(COQ, "Makefile")
        cp = os.path.join(COQ, "_CoqProject")
        if not os.path.exists(mk) or os.path.getmtime(mk) < os.path.getmtime(cp):
            p = run(["coq_makefile", "-f", "_CoqProject", "-o", "Makefile"], cwd=COQ)
            if p.returncode != 0:
                return False, p.stdout + p.stderr
        cmd = ["timeout", str(timeout), "make", "-j16"]
        if targets:
            cmd += targets
        p = run(cmd, cwd=COQ, timeout=timeout + 60)
        return p.returncode == 0, p.stdout + p.stderr


def coqc_file(path, timeout=900):
    """Compile one generated file outside the Makefile (cases / instance files).  Returns (ok, output)."""
    p = run(["timeout", str(timeout), "coqc"] + COQ_ARGS + [path], cwd=COQ, timeout=timeout + 60)
    return p.returncode == 0, p.stdout + p.stderr


def coqc_many(paths, timeout=900, workers=12):
    """Compile several generated files in parallel; returns [(ok, output)] in order."""
    from concurrent.futures import ThreadPoolExecutor
    with ThreadPoolExecutor(max_workers=workers) as ex:
        return list(ex.map(lambda p: coqc_file(p, timeout), paths))


def parse_mismatches(out, name="M"):
    """Parse `M = [..] : list N` printed by coqc; returns list of ints or None."""
    i = out.find(name + " = ")
    if i < 0:
        return None
    lst = out[i + len(name) + 3:].split(":")[0].replace("%N", "").strip()
    if lst == "[]":
        return []
    return [int(x) for x in lst.strip("[]").split(";") if x.strip()]


def coq_nat_list(xs):
    return "[" + "; ".join(str(x) for x in xs) + "]"


def coq_string(s):
    """A Coq string literal for ASCII text (other characters must not occur)."""
    out = []
    for ch in s:
        if ch == '"':
            out.append('""')
        elif 32 <= ord(ch) < 127:
            out.append(ch)
        else:
            raise ValueError("non-printable character in Coq string: %r" % s)
    return '"' + "".join(out) + '"'


def codepoints(s):
    return [ord(ch) for ch in s]


# ---------------------------------------------------------------- evidence / violations / findings

def seed_of_env():
    try:
        return int(os.environ.get("VERIF_SEED", "1"))
    except ValueError:
        return 1


def rng_for(prop, salt=""):
    return random.Random("%s/%s/%d" % (prop, salt, seed_of_env()))


def load_known():
    path = os.path.join(VERIF, "known_findings.jsonl")
    out = []
    if os.path.exists(path):
        for line in open(path):
            line = line.strip()
            if line and not line.startswith("#"):
                out.append(json.loads(line))
    return out


class Report:
    """Collects what a check run covered, its violations and known findings, and writes the evidence."""

    def __init__(self, prop, tier, level):
        self.prop, self.tier, self.level = prop, tier, level
        self.t0 = time.time()
        self.cov = {"samples": []}
        self.assumptions = []
        self.violations = []       # (replay_path, no_failing_input)
        self.known_hit = {}        # finding id -> count
        self.known = [k for k in load_known() if k.get("property") == prop and k.get("kind") == "known"]
        self.obligations = []      # (name, ok)
        self.notes = []
        ensure_dirs()
        for fn in os.listdir(REPLAY):
            if fn.startswith(prop + "_"):
                os.unlink(os.path.join(REPLAY, fn))

    # -- obligations
    def obligation(self, name, ok):
        self.obligations.append((name, bool(ok)))

    # -- known findings
    def match_known(self, tags):
        """tags: set of strings describing the failure; a finding matches when its 'match' tag is among them."""
        for k in self.known:
            if k.get("match") in tags:
                return k
        return None

    def known_finding(self, k, what=None):
        self.known_hit[k["id"]] = self.known_hit.get(k["id"], 0) + 1

    # -- violations
    def violation(self, name, payload, no_input=False):
        ensure_dirs()
        n = len(self.violations)
        path = os.path.join(REPLAY, "%s_%s_%d.json" % (self.prop, name, n))
        payload = dict(payload)
        payload.update({"property": self.prop, "what": name, "no_failing_input_found": bool(no_input),
                        "seed": seed_of_env()})
        with open(path, "w") as f:
            json.dump(payload, f, indent=1, sort_keys=True)
        self.violations.append((path, no_input))

    def failure(self, name, tags, payload, no_input=False):
        """Report a failure unless a known finding covers it."""
        k = self.match_known(set(tags))
        if k is not None:
            self.known_finding(k)
            return False
        # at most a handful of replay files per kind
        if sum(1 for p, _ in self.violations if ("_%s_" % name) in p) < 5:
            self.violation(name, payload, no_input)
        return True

    def finish(self):
        ensure_dirs()
        cov = self.cov
        nob = len(self.obligations)
        cov["obligations"] = nob
        cov["discharged"] = sum(1 for _, ok in self.obligations if ok)
        cov["obligation_names"] = [n for n, _ in self.obligations][:200]
        cov["failed_obligations"] = [n for n, ok in self.obligations if not ok]
        cov.setdefault("checker_cmd", "make -C /verif/coq (coq_makefile; coqc 8.16.1, full .vo) + coqc on generated instance/case files")
        cov.setdefault("trusted_base", [
            "Coq 8.16.1 kernel and its bytecode VM (vm_compute); no native_compute",
            "no axioms: Print Assumptions under every property theorem reports 'Closed under the global context'",
            "translator tools/gotrans (go/ast transliteration of switch tables and literals) and the Python renderer of Coq terms",
            "hook internal/verifhook (build tag verif): JSON printers of the real results",
            "correspondence harness (tools/vcheck): differential comparison of model and implementation",
        ])
        cov["known_findings_hit"] = self.known_hit
        if self.notes:
            cov["notes"] = self.notes
        ev = {
            "property_id": self.prop, "tier": self.tier, "seed": seed_of_env(), "level": self.level,
            "coverage": cov, "assumptions": self.assumptions,
            "wall_s": round(time.time() - self.t0, 2), "violations": len(self.violations),
        }
        with open(os.path.join(EVID, self.prop + ".json"), "w") as f:
            json.dump(ev, f, indent=1, sort_keys=True)
        # the case and instance files of this run are scratch (regenerated by every run): do not let them pile up
        if not self.violations:
            import glob
            for pat in ("cases_%s_*" % self.prop, "inst_%s_*" % self.prop, ".cases_%s_*" % self.prop, ".inst_%s_*" % self.prop):
                for fp in glob.glob(os.path.join(GEN, pat)):
                    try:
                        os.unlink(fp)
                    except OSError:
                        pass
        for k in self.known:
            if k["id"] in self.known_hit:
                print("KNOWN-FINDING: property=%s %s (%s; seen %d times in this run)" % (
                    self.prop, k["id"], k["what"], self.known_hit[k["id"]]))
        for path, no_input in self.violations:
            print("VIOLATION property=%s replay=%s%s" % (self.prop, path, " no-failing-input-found" if no_input else ""))
        sys.stdout.flush()
        return 1 if self.violations else 0
