"""C20 — lexical and syntax errors are reported at the first offending token."""
import json
import os
import re

from . import common as C
from . import lrfam as L
from . import docgrammar as D
from . import docref
from .lexmodel import Dfa, max_munch

PROP = "C20"

CASES_V = """(* GENERATED: correspondence cases for C20 — where the real parser reported the error *)
From Coq Require Import String List Bool Arith NArith.
From Verif Require Import Cfg.LR Reg.MaxMunch.
From VerifGen Require Import TableGo.
Import ListNotations.
Local Open Scope N_scope.
(* code 0 accepted; 1 syntax error at token i (i = number of tokens: the end marker, zero position) *)
Definition agrees (c : list N * N * nat) : bool :=
  let '(toks, code, i) := c in
  match snd (run ebnf_grammar ebnf_table ebnf_eof ebnf_err_state toks EndOfInput (N.to_nat 100000) init), code with
  | OAccept, 0 => true
  | OSyntaxError j, 1 => Nat.eqb i j
  | _, _ => false
  end.
Definition cases : list (list N * N * nat) := [
%s
].
Definition M := Eval vm_compute in mismatches agrees 0 cases.
Print M.
"""

STRAY = ["#", "!", "%", "A", "$", "@", "@lef", "\"", "\"abc", "/", "/ab", "/* open", "$a", "é",
         # degenerate forms of well-formed elements: the empty literal, a literal right after one, quotes of the other kind,
         # a lone backslash, an escape outside a literal, a doubled sigil
         "\"\"", "\"\"x\"", "\"a\"\"b\"", "'a'", "\\", "\\\"", "@@left", "$$ID", "/**/ /", "a\"b"]


def check(tier):
    rep = C.Report(PROP, tier, "proof")
    rng = C.rng_for(PROP)
    try:
        tr, T = L.regen()
    except C.BuildError as e:
        rep.obligation("translate parsing_table.go", False)
        rep.violation("translator", {"theorem": "gen/TableGo.v cannot be regenerated", "detail": str(e)}, no_input=True)
        return rep.finish()
    ok, log = C.coq_make(["theories/Props/C20.vo"])
    for t in ["nothing_after_the_error_matters", "tokens_before_the_error_were_shifted",
              "ebnf_viable_check (Cfg/EbnfCert.v: witness trees and completion plans recomputed for the regenerated table)",
              "the_shifted_prefix_can_be_completed", "the_shifted_prefix_begins_a_sentence", "tokens_before_a_lexical_error_begin_a_sentence",
              "the_offending_token_admits_no_continuation", "a_prefix_and_its_completion", "premature_end_example", "lexical_error_examples"]:
        rep.obligation("Props/C20.v: " + t, ok)
    rep.cov["print_assumptions"] = "Closed under the global context x%d" % log.count("Closed under the global context") if ok else "n/a"
    rep.cov["partial"] = ["the theorems speak about what the PARSER accepts; that this is the documented language is C04's tree classification, "
                          "validated per explored case against the independent reader and an exact Earley oracle of the documented grammar"]

    hook = C.Hook()
    g = D.doc_grammar()
    nspec = 12 if tier == "quick" else 30
    # identifiers and token names that are prefixes or extensions of the keywords and of the directive names: valid names, every one
    KEYWORDISH = ["g", "gr", "gra", "gram", "gramm", "gramma", "grammars", "grammar_x", "left", "none", "righ"]
    # block comments closed by a run of one, two, three, four stars, a `/**/`, stars inside: a comment must end where the documentation
    # says it ends, or the next error is reported somewhere else (or swallowed)
    comment_specs = ["grammar c;\n/** tokens **/\na = \"x\";\n/* rules */\nb = \"y\";", "grammar c;\n/**** banner ****/\na = \"x\";",
                     "grammar c;\n/* note **/\na = \"x\";", "grammar c;\n/**/ a = \"x\"; /***/ b = a; /* * / ** /*/ c = b;",
                     "grammar c; // line /* not open\na = \"x\"; /* (item)*) and/or **) */ b = a;"]
    keyword_specs = comment_specs + ["grammar k; s = %s; %s = \"a\";" % (w, w) for w in KEYWORDISH] + \
                    ["grammar k; %s = \"a\" | %s \"b\";" % (w, w) for w in KEYWORDISH[:7]]
    specs = list(L.FIXTURE_SPECS) + keyword_specs + [L.gen_spec(rng, ndecl=rng.randint(1, 4)) for _ in range(nspec)]
    ref0 = docref.build_reference()
    doc0 = Dfa(ref0["start"], docref.compress_edges(ref0["trans"]))
    dlab0 = lambda q: ref0["labels"].get(q)
    valid, lex_bad = [], []
    for sp in specs:
        toks, end = L.lex_kinds(hook, sp)
        kinds = [k for k, _ in toks]
        # a specification the DOCUMENTED scanner reads to the end must be read to the end by the implementation, with the same kinds:
        # a text refused here has no offending token at all
        dtoks, dend = max_munch(doc0, dlab0, C.codepoints(sp) + [10])
        if not (isinstance(dend, list) and dend and dend[0] == "error"):
            dkinds = [t[0] for t in dtoks]
            if end != "eof" or kinds != dkinds:
                r0 = hook.call({"op": "parse_trace", "mode": "parse", "text": sp})
                lex_bad.append((sp, ((r0.get("error") or {}).get("message", "") or "token kinds %r" % (kinds,))[:300], "expected the token kinds %r and no lexical error" % (dkinds,)))
                continue
        if end == "eof" and kinds and g.earley(kinds)[0]:
            valid.append((sp, kinds))
    # the keyword-like names must take part in the text-level sweep below
    valid.sort(key=lambda v: 0 if v[0] in comment_specs[:3] + keyword_specs[5:8] + keyword_specs[10:11] else 1)
    # ---- token level: every single-token insertion, deletion, replacement and truncation at every position
    seqs = []
    allk = list(T.terms)
    for _, ks in valid:
        if len(ks) > (14 if tier == "quick" else 40):
            continue
        for i in range(len(ks) + 1):
            seqs.append(ks[:i])                                   # truncation
            for a in (allk if tier != "quick" else rng.sample(allk, 6)):
                seqs.append(ks[:i] + [a] + ks[i:])                # insertion
                if i < len(ks):
                    seqs.append(ks[:i] + [a] + ks[i + 1:])        # replacement
            if i < len(ks):
                seqs.append(ks[:i] + ks[i + 1:])                  # deletion
    seen, uniq = set(), []
    for s in seqs:
        if tuple(s) not in seen:
            seen.add(tuple(s))
            uniq.append(s)
    seqs = uniq
    results = []
    for o in range(0, len(seqs), 2000):
        r = hook.call({"op": "parse_many", "seqs": seqs[o:o + 2000]})
        results.extend(r.get("results", []))
    cases, oracle_bad, dist = [], [], {"accepted": 0, "error_inside": 0, "error_at_end": 0, "other": 0}
    for s, r in zip(seqs, results):
        if r[0] == 2:
            dist["other"] += 1
            oracle_bad.append((s, r, "unclassified error"))
            continue
        acc, viable = g.earley(s)
        # the language is the documented grammar AS DISAMBIGUATED (handles and operands are consumed greedily): the expected
        # verdict and the first offending token are those of the recursive-descent reading; Earley cross-checks it
        rd = D.dictated_tree(s, T)
        if rd[0] == "ok" and not acc:
            oracle_bad.append((s, r, "oracle inconsistency: the greedy reading accepts a non-sentence"))
        if rd[0] != "ok" and not (rd[1] < len(viable) and viable[rd[1]]):
            oracle_bad.append((s, r, "oracle inconsistency: the greedy reading fails after a prefix that is not viable"))
        if acc and rd[0] != "ok":
            dist["greedy_rejections"] = dist.get("greedy_rejections", 0) + 1
        if r[0] == 0:
            dist["accepted"] += 1
            if rd[0] != "ok":
                oracle_bad.append((s, r, "accepted but not a sentence of the documented grammar as disambiguated"))
            cases.append((s, 0, 0))
            continue
        i = len(s) if r[1] == -1 else r[1]
        dist["error_at_end" if i == len(s) else "error_inside"] += 1
        cases.append((s, 1, i))
        if rd[0] == "ok":
            oracle_bad.append((s, r, "rejected although it is a sentence of the documented grammar as disambiguated"))
        elif rd[1] > i:
            oracle_bad.append((s, r, "the reported token still admits a continuation (a later token is the first offending one)"))
        elif rd[1] < i:
            oracle_bad.append((s, r, "the tokens before the reported one are not a prefix of any specification (an earlier token is the first offending one)"))
    paths, offs = [], []
    shard = 1500
    for o in range(0, len(cases), shard):
        path = os.path.join(C.GEN, "cases_C20_%d.v" % (o // shard))
        with open(path, "w") as f:
            f.write(CASES_V % ";\n".join("(%s, %d, %d%%nat)" % (C.coq_nat_list([T.tidx[k] for k in s]), code, i) for s, code, i in cases[o:o + shard]))
        paths.append(path)
        offs.append(o)
    badidx, cerr = [], None
    for (okc, out), o in zip(C.coqc_many(paths), offs):
        m = C.parse_mismatches(out) if okc else None
        if m is None:
            cerr = out
            break
        badidx.extend(o + x for x in m)

    # ---- text level: a stray or unterminated lexical element at every position of a specification
    ref = docref.build_reference()
    doc = Dfa(ref["start"], docref.compress_edges(ref["trans"]))
    dlab = lambda q: ref["labels"].get(q)
    text_bad, ntext = [], 0
    sweep = []
    for sp, _ in valid[: (6 if tier == "quick" else 20)]:
        positions = [m.start() for m in re.finditer(r"\s+", sp)] + [len(sp)]
        for pos in positions:
            for stray in (STRAY if tier != "quick" else rng.sample(STRAY, 7)):
                sweep.append(sp[:pos] + " " + stray + " " + sp[pos:])
    # the very last character of the text, nothing after it: a stray character directly behind the last token, behind a blank, behind a
    # line end - control characters that are no layout (form feed, vertical tab, SUB, DEL ...) included
    for sp, _ in valid[: (5 if tier == "quick" else 20)]:
        for last in ["\f", "\v", "\x1a", "\x01", "\x7f", "#", "\"", "/", "é", " \f", "\n\x1a", "\t\v", ";\f"]:
            sweep.append(sp.rstrip() + last)
    if True:
        if True:
            for text in sweep:
                ntext += 1
                r = hook.call({"op": "parse_trace", "mode": "parse", "text": text})
                err = r.get("error") or {}
                msg = err.get("message", "")
                toks, end = max_munch(doc, dlab, C.codepoints(text) + [10])
                if isinstance(end, list) and end[0] == "error":
                    exp = "f:%d:%d" % (end[2], end[3])
                    # the lexical error must be the diagnostic unless a syntax error comes first
                    kinds = [t[0] for t in toks]
                    acc, viable = g.earley(kinds)
                    first_syntax = next((k for k in range(1, len(kinds) + 1) if not viable[k]), None) if not all(viable[:len(kinds) + 1]) else None
                    if first_syntax is None:
                        if ("lexical error at " + exp) not in msg:
                            text_bad.append((text, msg, "expected lexical error at " + exp))
                    else:
                        t = toks[first_syntax - 1]
                        if not msg.startswith("f:%d:%d:" % (t[3], t[4])):
                            text_bad.append((text, msg, "expected syntax error at f:%d:%d" % (t[3], t[4])))
                else:
                    kinds = [t[0] for t in toks]
                    acc, viable = g.earley(kinds)
                    if acc:
                        if err:
                            text_bad.append((text, msg, "expected acceptance"))
                    else:
                        k = next((k for k in range(1, len(kinds) + 1) if not viable[k]), None)
                        if k is None:
                            if not err or not err.get("pos_zero"):
                                text_bad.append((text, msg, "expected an error at the end of input without a position"))
                        else:
                            t = toks[k - 1]
                            if not msg.startswith("f:%d:%d:" % (t[3], t[4])):
                                text_bad.append((text, msg, "expected syntax error at f:%d:%d" % (t[3], t[4])))
    # ---- a malformed UTF-8 byte sequence is a stray element too: directly after a token, directly before one, inside layout.
    #      Expected: the tokens COMPLETED before it (a lexeme is complete once a further, well-formed character has been read) are
    #      parsed; if they are a viable prefix the diagnostic is "file:line:column: invalid utf-8 character" at the first byte of
    #      the sequence, otherwise the syntax error that comes first.
    byte_bad, nbytes = [], 0
    for sp, _ in valid[: (4 if tier == "quick" else 20)]:
        positions = sorted(set([m.start() for m in re.finditer(r"\s+", sp)] + [m.end() for m in re.finditer(r"\s+", sp)] + [len(sp)]))
        if tier == "quick":
            positions = positions[::3]
        for pos in positions:
            for bad in (b"\xff", b"\xe9", b"\x80", b"\xc3", b"\xf0\x9f"):
                prefix = sp[:pos]
                data = prefix.encode("utf-8") + bad + sp[pos:].encode("utf-8")
                nbytes += 1
                r = hook.call({"op": "parse_bytes", "text_hex": data.hex()})
                msg = (r.get("error") or {}).get("message", "")
                toks, end = max_munch(doc, dlab, C.codepoints(prefix), eval_at_eof=False)
                if end != "eof":
                    continue
                kinds = [t[0] for t in toks]
                acc, viable = g.earley(kinds)
                k = next((k for k in range(1, len(kinds) + 1) if not viable[k]), None)
                if k is None:
                    line = prefix.count("\n") + 1
                    col = len(prefix) - (prefix.rfind("\n") + 1) + 1
                    want = "f:%d:%d: invalid utf-8 character" % (line, col)
                    if want not in msg:
                        byte_bad.append((data, msg, "expected " + want))
                else:
                    t = toks[k - 1]
                    if not msg.startswith("f:%d:%d:" % (t[3], t[4])):
                        byte_bad.append((data, msg, "expected the syntax error at f:%d:%d" % (t[3], t[4])))
    hook.close()

    rep.cov["evaluations"] = len(cases) + ntext + nbytes
    rep.cov["distinct_nontrivial"] = dist["error_inside"] + dist["error_at_end"]
    rep.cov["rule"] = ("every single-token insertion (each of the 22 kinds), deletion, replacement and truncation at every position of valid "
                       "token streams, replayed through Parse; the reported index is compared with the Coq driver model and judged by an exact "
                       "Earley oracle for the documented grammar (prefix viable, offending token not); plus a stray or unterminated lexical "
                       "element at every gap of specification texts through the real scanner+parser, reported file:line:column compared with "
                       "the documented scanner; non-trivial = a rejected input")
    rep.cov["input_distribution"] = dict(dist, texts=ntext, valid_specs=len(valid))
    rep.cov["samples"] = [{"tokens": s, "code": c, "index": i} for s, c, i in cases[50:54]]
    if cerr is not None:
        rep.obligation("correspondence cases compile", False)
        if ok:
            rep.violation("cases", {"theorem": "gen/cases_C20_*.v does not compile", "log": cerr[-3000:]}, no_input=True)
    else:
        rep.obligation("correspondence: reported error index == Coq driver model on %d token sequences" % len(cases), not badidx)
    rep.obligation("oracle: reported token is the first offending one (exact Earley decision) on %d rejected sequences"
                   % (dist["error_inside"] + dist["error_at_end"]), not oracle_bad)
    rep.obligation("no lexical error without an offending element: %d specifications the documented scanner reads to the end (keyword-like names included) "
                   "are read to the end, with the same token kinds" % len(specs), not lex_bad)
    for text, msg, why in lex_bad[:3]:
        rep.failure("position", {"position"}, {"input_text": text, "message": msg, "why": why})
    rep.obligation("text level: file:line:column of %d stray/unterminated insertions" % ntext, not text_bad)
    rep.obligation("byte level: file:line:column of %d malformed UTF-8 sequences (after a token, before one, inside layout)" % nbytes, not byte_bad)
    for data, msg, why in byte_bad[:3]:
        rep.failure("malformed-byte", {"malformed-byte"}, {"input_bytes_hex": data.hex(), "input_text_latin1": data.decode("latin-1")[:400],
                                                           "message": msg[:300], "why": why})
    for i in badidx[:3]:
        s, code, k = cases[i]
        rep.failure("index", {"index"}, {"tokens": s, "observed": [code, k], "model": T.run([T.tidx[x] for x in s])[1]})
    kinds = set()
    for s, r, why in oracle_bad:
        if why in kinds:
            continue
        kinds.add(why)
        rep.failure("first-offending", {why}, {"tokens": s, "observed": r, "why": why})
    for text, msg, why in text_bad[:3]:
        rep.failure("position", {"position"}, {"input_text": text, "message": msg, "why": why})
    if not ok and not rep.violations:
        rep.violation("proof", {"theorem": "Props/C20.v", "log": log[-2500:]}, no_input=True)
    return rep.finish()


def replay(path):
    d = json.load(open(path))
    hook = C.Hook()
    if "tokens" in d:
        r = hook.call({"op": "parse_many", "seqs": [d["tokens"]]})
        print("observed now:", r.get("results"), "recorded:", d.get("observed"))
        acc, viable = D.doc_grammar().earley(d["tokens"])
        print("documented grammar: sentence=%s viable prefixes=%s" % (acc, viable))
        rc = 1
    elif "input_text" in d:
        r = hook.call({"op": "parse_trace", "mode": "parse", "text": d["input_text"]})
        print("message now:", (r.get("error") or {}).get("message"), "|", d.get("why"))
        rc = 1
    else:
        print("replay names an obligation:", d.get("theorem"))
        rc = 1
    hook.close()
    return rc
