"""docref: extracts the documented scanner automaton (executed, not re-typed) and the token table
from /repo/docs, applies the overrides the property text prescribes, and labels each accepting state."""
import json
import os
import re
import shutil

from . import common as C

OVERRIDES = os.path.join(C.VERIF, "docref_overrides.json")


def extract_dfa_program():
    md = open(os.path.join(C.REPO, "docs", "6-design.md")).read()
    i = md.find("Lexer DFA Code")
    if i < 0:
        raise RuntimeError("docs/6-design.md: 'Lexer DFA Code' block not found")
    m = re.compile(r"```go\n(.*?)\n```", re.S).search(md, i)
    if not m:
        raise RuntimeError("docs/6-design.md: go block not found")
    return m.group(1)


def run_doc_program():
    src = extract_dfa_program()
    if "github.com/moorara/algo/automata" not in src:
        raise RuntimeError("documented DFA program does not import the automata package")
    src = src.replace('"github.com/moorara/algo/automata"', '"verif/tools/docshim"')
    d = os.path.join(C.TOOLS, ".docdfa")
    shutil.rmtree(d, ignore_errors=True)
    os.makedirs(d)
    try:
        with open(os.path.join(d, "main.go"), "w") as f:
            f.write(src)
        p = C.run(["go", "run", "./.docdfa"], cwd=C.TOOLS, env=C.go_env_local())
        if p.returncode != 0:
            raise RuntimeError("documented DFA program failed:\n" + p.stderr)
        return json.loads(p.stdout)
    finally:
        shutil.rmtree(d, ignore_errors=True)


def token_table():
    """Rows of the 'Tokens' table of docs/5-definitions.md: (name, 'fixed'|'regex', text)."""
    md = open(os.path.join(C.REPO, "docs", "5-definitions.md")).read()
    i = md.find("### Tokens")
    j = md.find("### Grammar", i)
    rows = []
    for line in md[i:j].split("\n"):
        if not line.startswith("| `"):
            continue
        # split on unescaped pipes
        cells = [c.strip() for c in re.split(r"(?<!\\)\|", line)[1:-1]]
        name = cells[0].strip("`")
        lex = cells[1].strip()
        if lex.startswith("`") and lex.endswith("`"):
            lex = lex[1:-1]
        lex = lex.replace("\\|", "|")
        if lex.startswith('"'):
            k = lex.find('"', 1)
            rows.append((name, "fixed", lex[1:k]))
        elif lex.startswith("/") and lex.endswith("/"):
            rows.append((name, "regex", lex[1:-1]))
        else:
            raise RuntimeError("token table: cannot read lexeme cell %r" % lex)
    if len(rows) < 20:
        raise RuntimeError("token table: only %d rows found" % len(rows))
    return rows


# the kinds the scanner reports are the lexeme for fixed tokens and the table's name otherwise
def kind_of_row(name, typ, text):
    return text if typ == "fixed" else name


def load_overrides():
    return json.load(open(OVERRIDES))


def build_reference():
    """Returns {'start','trans':[[s,c,t]],'labels':{state:label}} where label is
    ['tok',kind,mode,fixed] | ['skip'] and states without label are non-accepting."""
    raw = run_doc_program()
    ov = load_overrides()
    trans = {}
    for s, c, t in raw["trans"]:
        trans[(s, c)] = t
    applied = []
    for s, c, t, why in ov.get("edges", []):
        if trans.get((s, c)) != t:
            applied.append({"edge": [s, c, trans.get((s, c)), t], "why": why})
        trans[(s, c)] = t
    finals = set(raw["finals"])
    for s, why in ov.get("extra_finals", []):
        if s not in finals:
            applied.append({"final": s, "why": why})
        finals.add(s)
    # shortest access strings by BFS (a few per state)
    start = raw["start"]
    by_state = {}
    for (s, c), t in sorted(trans.items()):
        by_state.setdefault(s, []).append((c, t))
    access = {start: [[]]}
    frontier = [(start, [])]
    while frontier:
        nxt = []
        for s, w in frontier:
            for c, t in by_state.get(s, []):
                lst = access.setdefault(t, [])
                if len(lst) < 6 and len(w) < 12:
                    lst.append(w + [c])
                    nxt.append((t, w + [c]))
        frontier = nxt
    rows = token_table()
    fixed = [(kind_of_row(*r), r[2]) for r in rows if r[1] == "fixed"]
    regex = [(kind_of_row(*r), re.compile(r[2])) for r in rows if r[1] == "regex"]
    delimited = set(ov.get("delimited", ["STRING", "REGEX"]))

    comment_prefixes = ov.get("comment_prefixes", [])

    def label_of(w):
        s = "".join(chr(c) for c in w)
        if any(s.startswith(cp) for cp in comment_prefixes):
            return ["skip"]
        for k, lex in fixed:
            if s == lex:
                return ["tok", k, "fixed", lex]
        for k, rx in regex:
            if rx.fullmatch(s):
                return ["tok", k, "strip1" if k in delimited else "whole", ""]
        return ["skip"]

    labels = {}
    inconsistent = []
    for q in sorted(finals):
        ls = [label_of(w) for w in access.get(q, [])]
        if not ls:
            continue  # unreachable accepting state
        if any(l != ls[0] for l in ls):
            inconsistent.append((q, ls))
        labels[q] = ls[0]
    if inconsistent:
        raise RuntimeError("documented automaton: access strings of a state get different labels: %r" % inconsistent)
    return {"start": start, "trans": [[s, c, t] for (s, c), t in sorted(trans.items())],
            "labels": labels, "overrides_applied": applied,
            "access": {q: ws[0] for q, ws in access.items()}}


def compress_edges(trans):
    """[[s,c,t]] -> [[s,lo,hi,t]] with maximal runs."""
    by = {}
    for s, c, t in trans:
        by.setdefault((s, t), []).append(c)
    out = []
    for (s, t), cs in sorted(by.items()):
        cs.sort()
        i = 0
        while i < len(cs):
            j = i
            while j + 1 < len(cs) and cs[j + 1] == cs[j] + 1:
                j += 1
            out.append([s, cs[i], cs[j], t])
            i = j + 1
    return out
