"""Shared machinery of the pattern properties C02 (NFA route), C09 (acceptance) and C10 (followpos route):
translated tables -> gen/RuneGo.v, pattern generators, hook driver, Coq case files."""
import itertools
import json
import os

from . import common as C
from .lexmodel import Dfa


def translate_misc():
    C.build_tools()
    p = C.run([os.path.join(C.BIN, "gotrans"), "misc", C.REPO])
    if p.returncode != 0:
        raise C.BuildError("gotrans misc: " + p.stderr.strip())
    return json.loads(p.stdout)


def nl(xs):
    return "[" + "; ".join(str(x) for x in xs) + "]"


def cs_term(ivs):
    return "[" + "; ".join("(%d,%d)" % (a, b) for a, b in ivs) + "]"


def rune_go_v(tr):
    L = ["(* GENERATED on every run — source: internal/regex/parser/parser.go, rune.go; internal/ebnf/parser/parser.go *)",
         "From Coq Require Import String List NArith.", "From Verif Require Import Base.CharSet.",
         "Import ListNotations.", "Local Open Scope N_scope.", "Local Open Scope string_scope.", ""]
    L.append("Definition escaped : list N := %s." % nl(tr["escaped"]))
    for s in tr["charClass"]:
        if len(s) != 2 or s[0] != "\\":
            raise C.BuildError("charClass entry %r is not a backslash letter" % s)
    L.append("Definition cls_letters : list N := %s." % nl([ord(s[1]) for s in tr["charClass"]]))
    L.append("Definition ascii_names : list (list N) := [%s]." % "; ".join(nl(C.codepoints(s)) for s in tr["asciiCharClass"]))
    L.append("Definition uni_cats : list (list N) := [%s]." % "; ".join(nl(C.codepoints(s)) for s in tr["unicodeCategory"]))
    L.append("Definition rune_classes : list (string * charset) := [")
    L.append(";\n".join("  (%s, %s)" % (C.coq_string(k), cs_term(v)) for k, v in sorted(tr["rune_classes"].items())))
    L.append("].")
    L.append("Definition predefs : list (string * list N) := [")
    L.append(";\n".join("  (%s, %s)" % (C.coq_string(k), nl(C.codepoints(v))) for k, v in sorted(tr["predefs"].items())))
    L.append("].")
    # terminalNames (spec/symbol_table.go); keys that a STRING lexeme cannot contain (control characters, space) are left out
    tn = {k: v for k, v in tr.get("terminal_names", {}).items() if all(33 <= ord(ch) < 127 for ch in k)}
    L.append("Definition terminal_names : list (string * string) := [%s]." % "; ".join(
        "(%s, %s)" % (C.coq_string(k), C.coq_string(v)) for k, v in sorted(tn.items())))
    L.append("Definition predefs_s : list (string * string) := [%s]." % "; ".join(
        "(%s, %s)" % (C.coq_string(k), C.coq_string(v)) for k, v in sorted(tr["predefs"].items())))
    return "\n".join(L) + "\n"


def regen():
    tr = translate_misc()
    C.write_if_changed(os.path.join(C.GEN, "RuneGo.v"), rune_go_v(tr))
    return tr


# ------------------------------------------------------------------ pattern generation

ATOMS = ["a", "b", ".", "\\d", "\\D", "\\w", "\\W", "\\s", "\\S", "[ab]", "[^a]", "[a-c]", "[^a-c]", "\\x41", "\\x0042",
         "\\.", "\\\\", "\\$", "[:digit:]", "[:alpha:]", "[[:digit:]x]", "[^[:alpha:]]", "\\p{L}", "\\P{Lu}", "[\\d_]", "[\\]a]",
         "-", "/", "\"", "^", ",", ":"]
QUANTS = ["", "?", "*", "+", "{0}", "{1}", "{2}", "{0,}", "{1,}", "{2,}", "{0,1}", "{0,2}", "{1,2}", "{1,3}", "{2,2}", "{2,3}",
          "??", "*?", "+?", "{1,2}?"]
EVERY_CONSTRUCT = (
    ["[:blank:]", "[:space:]", "[:digit:]", "[:xdigit:]", "[:upper:]", "[:lower:]", "[:alpha:]", "[:alnum:]", "[:word:]", "[:ascii:]"]
    + ["[[:blank:]]", "[^[:space:]]", "[^[:xdigit:]]", "[[:upper:][:digit:]]"]
    + ["\\" + c for c in "\\|.?*+()[]{}$"]
    + ["\\p{%s}" % k for k in ("Letter", "L", "Lu", "Ll", "Latin", "Greek", "Cyrillic", "Persian", "Math", "Nd", "Zs")]
    + ["\\P{%s}" % k for k in ("Letter", "Lu", "Greek", "Nd")]
    + ["[\\p{Greek}]", "[\\x80]", "[\\x0100-\\x0102]", "[^\\p{Greek}a]", "\\x00e9", "\\xE9", "\\x20AC", "\\x0001F600", "[\\x7F-\\x0081]"]
    + ["a$", "^a", "^a|b", "(a)", "(a|b)", "(a|b)*abb", "(ab)+", "(a*)*", "(a?)+", "(a|)", "a||b", "()", "a|", "|a",
       "ab?c", "a*", "a?", "(a*b*)*", "a*b", "(a?b?)c", "a{0}", "a{0}b", "(ab){0,2}c", "(a|b){2}", "(a{1,2}){2}", "a{2,}b{0,1}",
       "a.b", "[^a]b", ".*", ".+x", "\\x00", "\\x00a", "[\\x00-a]", "[^b]", "\\Sx", "\\W\\d"]
    # inside a bracket group an escaped character next to "-": the documented range endpoints are plain characters and \x escapes,
    # so these are three single items, not a range
    + ["[\\+-9]", "[\\\\-a]", "[a-\\]]", "[\\.-\\+]", "[!-\\+]", "[\\(-\\)]", "[^\\+-9]", "[\\$-a]x", "[0\\--9]"]
)
# a blank is an ordinary character of a pattern, also as its first or last one
EDGE_BLANKS = [", ", "a ", " a", " ", "  ", " +", "[0-9]+ | ", " |a", "a| ", "( a )", " a b ", "\\x20a ", "a\t", "\ta"]
# bracket groups whose set is everything or nothing (grammatical; what they match is C02's business)
EXTREME_GROUPS = ["[^\\s\\S]", "[^\\d\\D]", "[^\\w\\W]", "[^[:ascii:]]", "[^\\x00-\\x7F]", "a|[^\\W\\w]", "[^\\d\\D]?x", "[\\s\\S]", "[\\x00-\\x7F]+", "[^\\x01-\\x7F]"]
PROBLEM = ["[b-a]", "a{2,1}", "[z-a]x", "(a{3,2})", "[a-c-e]", "a{,2}", "a{}", "a{1", "a**", "(", ")", "(a", "a)", "[", "[]", "[a", "\\", "\\q",
           "\\x4", "\\xZZ", "\\p{Foo}", "\\p{L", "[:digit", "a|b|", "ab)", "a\\/b", "a\nb", "a\tb", "é", "aé", "[é]", "", "+", "?a", "{1}",
           "a{1,2,3}", "a{1}{2}", "a+?+", "[^]", "[a-]", "[-a]", "[]a]", "a\\",
           # every pair of small bounds, the upper one written with and without leading zeros: min > max must be named whatever the numbers
           ] + ["a{%d,%s}" % (lo, hi) for lo in (0, 1, 2, 3, 10, 12) for hi in ("0", "00", "1", "2", "9", "10", "11")] + [
           "(ab|c){2,0}?", "a|b{7,0}c", "[0-9]{12,00}", "x{1,0}y", "(x{3,0})"]


# a backslash before every printable ASCII character, alone and inside a bracket group: every escape the documentation
# defines and every one it does not
ALL_ESCAPES = ["\\" + chr(c) for c in range(0x20, 0x7F)] + ["[\\" + chr(c) + "]" for c in range(0x20, 0x7F)] + \
              ["a\\" + c + "b" for c in "tnrvfabe0sdw"]


def gen_tree(rng, depth):
    """A random pattern string built from the documented constructs."""
    if depth <= 0 or rng.random() < 0.3:
        s = rng.choice(ATOMS)
    else:
        k = rng.random()
        if k < 0.35:
            s = gen_tree(rng, depth - 1) + gen_tree(rng, depth - 1)
        elif k < 0.6:
            s = "(" + gen_tree(rng, depth - 1) + "|" + gen_tree(rng, depth - 1) + ")"
        elif k < 0.8:
            s = "(" + gen_tree(rng, depth - 1) + ")"
        else:
            s = gen_tree(rng, depth - 1) + "|" + gen_tree(rng, depth - 1)
            return s
    if rng.random() < 0.45:
        q = rng.choice(QUANTS[1:])
        if len(s) > 2 and not (s.startswith("(") and s.endswith(")")) and not s.startswith("[") and not s.startswith("\\"):
            s = "(" + s + ")"
        s += q
    return s


def small_exhaustive():
    """All patterns built from {a, b} with one operator layer over one/two operands (the C10-sensitive shapes)."""
    out = []
    base = ["a", "b", "(a|b)", "a?", "b*", "(ab)", "a*"]
    for x in base:
        for q in QUANTS:
            out.append(x + q if (len(x) == 1 or x.startswith("(") or True) else x)
    for x, y in itertools.product(base, repeat=2):
        out.append(x + y)
        out.append(x + "|" + y)
        out.append("(" + x + "|" + y + ")*" + x)
    for x, y, z in itertools.product(["a", "a?", "a*", "b", "b?", "(a|b)"], repeat=3):
        out.append(x + y + z)
    return out


def mutations(rng, pats, n):
    alphabet = "ab.\\|?*+()[]{}$^-,01x:pPsdwtnrvf/ \n"
    out = []
    for _ in range(n):
        p = rng.choice(pats)
        if not p:
            continue
        i = rng.randrange(len(p) + 1)
        k = rng.random()
        if k < 0.34:
            out.append(p[:i] + rng.choice(alphabet) + p[i:])
        elif k < 0.67 and i < len(p):
            out.append(p[:i] + p[i + 1:])
        elif i < len(p):
            out.append(p[:i] + rng.choice(alphabet) + p[i + 1:])
    return out


def short_strings(alphabet, maxlen):
    for n in range(0, maxlen + 1):
        for t in itertools.product(alphabet, repeat=n):
            yield "".join(t)


def corpus(prop):
    out = []
    path = os.path.join(C.VERIF, "corpus", prop + ".jsonl")
    if os.path.exists(path):
        for line in open(path):
            line = line.strip()
            if line:
                out.append(json.loads(line)["pattern"])
    return out


# ------------------------------------------------------------------ implementation outcomes

def impl_code(route):
    """0 accepted, 1 syntax ("invalid regular expression"), 2 semantic (names the problem), 3 anything else (panic...)."""
    oc = route.get("outcome")
    if oc == "ok":
        return 0
    if oc == "error":
        e = route.get("error", "")
        if "invalid repetition range" in e or "invalid character range" in e:
            return 2
        if "invalid regular expression" in e:
            return 1
        return 1 if "unconsumed" in e or "unexpected" in e else 3
    return 3


def dfa_term(d):
    return "({| d_start := %d; d_edges := [%s] |}, %s)" % (
        d["start"], "; ".join("(%d,%d,%d,%d)" % tuple(e) for e in d["trans"]), nl(d["finals"]))


CASES_V = """(* GENERATED: certified instances / correspondence cases for %(prop)s *)
From Coq Require Import String List Bool NArith.
From Verif Require Import Base.CharSet Reg.Dfa Reg.Regex Reg.EquivCheck Reg.Pattern Reg.PatSem Reg.PatCheck Reg.MaxMunch.
From VerifGen Require Import RuneGo.
Import ListNotations.
Local Open Scope N_scope.
Definition ok := case_ok escaped ascii_names uni_cats cls_letters rune_classes.
Definition cases : list case := [
%(body)s
].
Definition M := Eval vm_compute in mismatches ok 0 cases.
Print M.
Definition K := Eval vm_compute in mismatches (fun c : case => pattern_nul_free escaped ascii_names uni_cats cls_letters rune_classes (fst (fst c))) 0 cases.
Print K.
"""


def case_term(pattern, code, autos):
    return "(%s, %d, [%s])" % (nl(C.codepoints(pattern)), code, "; ".join(dfa_term(a) for a in autos))


def run_case_file(name, cases, shard=60, timeout=900):
    """cases: list of (pattern, impl_code, [dfa dumps]).  Returns (bad indices, error text or '').
    A shard that exceeds the time limit is split; a single case that still exceeds it is recorded in LAST["slow"]
    (undecided: the kernel did not finish evaluating the certified checker), not as a failure."""
    LAST["known"], LAST["slow"] = [], []
    bad = []
    work = [(s, cases[s:s + shard]) for s in range(0, len(cases), shard)]
    gen = 0
    while work:
        paths = []
        for k, (off, cs) in enumerate(work):
            body = ";\n".join(case_term(*c) for c in cs)
            path = os.path.join(C.GEN, "%s_%d_%d.v" % (name, gen, k))
            with open(path, "w") as f:
                f.write(CASES_V % {"prop": name, "body": body})
            paths.append(path)
        nxt = []
        for (ok, out), (off, cs) in zip(C.coqc_many(paths, timeout), work):
            if not ok and not out.strip():          # killed by the time limit
                if len(cs) == 1:
                    LAST["slow"].append(off)
                else:
                    h = (len(cs) + 1) // 2
                    nxt.append((off, cs[:h]))
                    nxt.append((off + h, cs[h:]))
                continue
            if not ok:
                return None, out
            m = C.parse_mismatches(out)
            k_ = C.parse_mismatches(out, "K")
            if m is None or k_ is None:
                return None, out
            bad.extend(off + x for x in m)
            LAST["known"].extend(off + x for x in k_)
        work = nxt
        gen += 1
        timeout = max(120, timeout // 2)
    return bad, ""


LAST = {"known": [], "slow": []}


# ------------------------------------------------------------------ search side (python mirror; never a verdict)

def distinguishing(d1, d2, maxlen=8):
    """Shortest string on which two dumped DFAs (with finals) disagree; None if none up to the product closure."""
    A, B = Dfa(d1["start"], d1["trans"]), Dfa(d2["start"], d2["trans"])
    f1, f2 = set(d1["finals"]), set(d2["finals"])
    atoms = sorted({1} | A.bounds() | B.bounds())
    start = (A.start, B.start)
    seen = {start: []}
    queue = [start]
    while queue:
        nxt = []
        for p in queue:
            w = seen[p]
            if (p[0] in f1) != (p[1] in f2):
                return w
            for c in atoms:
                n = (A.step(p[0], c), B.step(p[1], c))
                if n not in seen and n != (None, None):
                    seen[n] = w + [c]
                    nxt.append(n)
        queue = nxt
    return None
