"""C17 — processing is a pure function of the text: no interference from earlier or concurrent processing."""
import itertools
import json
import os
import re
import subprocess

from . import common as C
from . import c15
from . import specfam as S

PROP = "C17"

# package-level variables of the linked packages and the only uses they may have besides plain reads
ALLOWED_CALLS = {"idRegex": {"MatchString"}, "templates": {"ReadFile"}, "RuneClasses": {"Runes"}}   # Runes() builds a new slice from the class
ALLOWED_PASSED = {
    "plum": {"c.Infof"}, "gold": {"c.Infof"}, "chartreuse": {"c.Infof"},
    "navajoWhite": {"g.Debugf"}, "darkOrange": {"g.Infof"}, "hotPink": {"g.Infof"}, "orchid": {"g.Infof"},
    "builtin": {"generic.AnyMatch"}, "escapedChars": {"comb.ExcludeRunes", "comb.ExpectRuneIn"},
    "Version": {"fmt.Sprintf"}, "Commit": {"fmt.Sprintf"}, "Branch": {"fmt.Sprintf"}, "GoVersion": {"fmt.Sprintf"},
    "BuildTool": {"fmt.Sprintf"}, "BuildTime": {"fmt.Sprintf"},
}

# the package-level variables of the linked packages as of the modelled tree (all read-only after initialisation)
KNOWN_VARS = {
    ("internal/command/command.go", "plum"), ("internal/command/command.go", "gold"), ("internal/command/command.go", "chartreuse"),
    ("internal/command/command.go", "emojis"), ("internal/ebnf/parser/parser.go", "Predefs"),
    ("internal/ebnf/parser/parsing_table.go", "terminals"), ("internal/ebnf/parser/parsing_table.go", "nonTerminals"),
    ("internal/ebnf/parser/parsing_table.go", "productions"), ("internal/ebnf/parser/parsing_table.go", "G"),
    ("internal/ebnf/parser/parsing_table.go", "precedences"), ("internal/ebnf/parser/spec/symbol_table.go", "terminalNames"),
    ("internal/generate/golang/code.go", "idRegex"), ("internal/generate/golang/code.go", "builtin"),
    ("internal/generate/golang/golang.go", "templates"), ("internal/generate/golang/golang.go", "navajoWhite"),
    ("internal/generate/golang/golang.go", "darkOrange"), ("internal/generate/golang/golang.go", "hotPink"),
    ("internal/generate/golang/golang.go", "orchid"), ("internal/regex/parser/parser.go", "escapedChars"),
    ("internal/regex/parser/rune.go", "RuneClasses"),
    ("metadata/metadata.go", "Version"), ("metadata/metadata.go", "Commit"), ("metadata/metadata.go", "Branch"),
    ("metadata/metadata.go", "GoVersion"), ("metadata/metadata.go", "BuildTool"), ("metadata/metadata.go", "BuildTime"),
}

SPECS = [
    'grammar a;\nstart = {"x"} ["y"] {{"z"}} ("w" | "v") NUM;\nNUM = /[0-9]+/;\n',
    'grammar b;\nstart = expr;\nexpr = expr "+" term | term;\nterm = {"x" "y"} | ["z"] ID;\nID = $ID;\n',
    'grammar c;\nstart = {aa} [bb] {{cc}};\naa = "1";\nbb = "2" | "3";\ncc = ("4" | "5") aa;\n',
    'grammar d;\nstart = "a" {"b" | "c"} ["d" "e"] {{"f"}};\n',
    'grammar e;\nAA = "x";\nBB = "x";\nstart = AA BB NUM;\n',
    'grammar f;\nstart = {"x"} {"x"} [{"x"}] ({"x"} | ["y"]);\n',
]
# specifications whose definitions collide across specifications in one partial key (the same text once as a pattern and once as a
# string, the same token name with different definitions, the same value under different names): anything remembered from an
# earlier specification under such a key shows up here
COLLIDING = [
    'grammar g;\nANY = /./;\nPL = /a+/;\nstart = ANY PL;\n',
    'grammar h;\nID = /[a-z]+/;\nstart = ID "." ID "a+";\n',
    'grammar i;\nID = /[A-Z]+/;\nANY = "x";\nstart = ID ANY;\n',
    'grammar j;\nPL = "+";\nstart = start "." | PL "a+" | ;\n',
    # a punctuation terminal under a bracket in one specification, a non-terminal called like its nickname under the same bracket in
    # another (both are named gen_<nickname>_<kind>: known finding D2 inside ONE specification; across specifications nothing is shared)
    'grammar na;\nstart = item [","] {"+"};\nitem = "x";\n',
    'grammar nb;\nstart = item [comma] {plus};\ncomma = ",";\nplus = "+";\nitem = "x";\n',
    # the same mistake in two specifications: each must get its own diagnostics
    'grammar x;\nID = $IDENT;\nstart = ID;\n',
    'grammar y;\nNUM = /[0-9]+/;\nWORD = $IDENT;\nBAD = /[z-a]/;\nstart = NUM missing;\n',
    'grammar z;\nBAD = /[z-a]/;\nDUP = "d";\nDUP = "e";\nstart = BAD DUP missing;\n',
]
PATTERNS = ["[a-z]+", "(ab|cd)*e", "[^0-9]", "\\d{2,3}", "[[:alpha:]_]\\w*", "(", "a{3,1}", "a{4,2})", "[z-a", "(b{2,1}", "[a-c]+x", "\\p{Nope}x)",
            # every shared class table in both polarities (a later pattern must not see what an earlier one did to a table)
            "\\s+", "a\\S*", "\\D\\d", "\\W+\\w", "[^\\s]x", "[\\s\\d]", "\\p{Greek}+", "\\P{Greek}", "[[:space:]]+", "[^[:digit:]]", "[[:^alpha:]]", ".",
            # a pattern that fails deep inside (1200 open groups) and valid patterns with groups: whatever a failing parse had taken must be given back
            "(" * 1200, "(ab)+c", "((a|b)c)*", "-?[0-9]+(\\.[0-9]+)?"]

CASES_V = """(* GENERATED: hashStrings of the implementation vs the FNV-1 model of Emerge/Shared.v *)
From Coq Require Import List Bool NArith.
From Verif Require Import Reg.MaxMunch Emerge.Shared.
Import ListNotations.
Local Open Scope N_scope.
Definition agrees (c : list (list N) * N * N) : bool :=
  let '(syms, start, h) := c in
  match exec start (hash_ops syms) with [x] => x =? h | _ => false end.
Definition cases : list (list (list N) * N * N) := [
%s
].
Definition M := Eval vm_compute in mismatches agrees 0 cases.
Print M.
"""


def race_hook():
    """The hook built with the race detector (needs cgo); None when it cannot be built here."""
    exe = os.path.join(os.path.dirname(C.hook_path()), "verifhook_race")
    if os.path.exists(exe):
        return exe
    env = C.go_env()
    env["CGO_ENABLED"] = "1"
    p = C.run(["go", "build", "-race", "-tags", "verif", "-o", exe, "./internal/verifhook"], cwd=C.REPO, env=env, timeout=900)
    if p.returncode != 0:
        return None
    return exe


STD_PREFIXES = ("hash/", "runtime", "sync", "math/", "strings.", "bytes.", "fmt.", "sort.", "slices.", "io.", "unicode", "reflect.", "encoding/", "errors.", "iter.", "maps.")
WRITER_HELPERS = ("github.com/moorara/algo/grammar.WriteSymbol", "github.com/moorara/algo/grammar.WriteString")


def owner_of(stack_text):
    """The frame that owns the state touched: the first frame that is neither standard library nor a helper writing
    into a writer handed to it."""
    for l in stack_text.split("\n"):
        if not re.match(r"^  \S", l):
            continue
        f = l.strip()
        if f.startswith(STD_PREFIXES) or f.startswith(WRITER_HELPERS):
            continue
        return f
    return "?"


def classify_races(stderr):
    repo, dep = {}, {}
    for b in stderr.split("=================="):
        if "DATA RACE" not in b:
            continue
        stacks = [s_ for s_ in re.split(r"\n\n", b) if re.search(r"^(Write|Read|Previous write|Previous read)", s_.strip(), re.M)]
        owners = [owner_of(s_) for s_ in stacks[:2]]
        mine = [o for o in owners if "github.com/gardenbed/emerge/" in o and "/verifhook" not in o and not o.startswith("main.")]
        key = " / ".join(sorted(set(owners)))
        if mine:
            repo.setdefault(key, b.strip()[:3000])
        else:
            dep.setdefault(key, b.strip()[:1500])
    return repo, dep


def check(tier):
    rep = C.Report(PROP, tier, "proof")
    rng = C.rng_for(PROP)
    ok, log = C.coq_make(["theories/Props/C17.vo"])
    for t in ["hash_independent_of_history", "sequential_processing_independent", "concurrent_private_hasher_safe",
              "concurrent_private_state_safe", "concurrent_shared_hasher_refuted"]:
        rep.obligation("Props/C17.v: " + t, ok)
    C.build_tools()

    # ---- T: package-level state of the current source ----
    listing = c15.sites_listing()
    linked = c15.cli_packages()
    state_problems, accepted = [], []
    for v in listing["package_vars"]:
        pkg = "github.com/gardenbed/emerge/" + os.path.dirname(v["file"])
        if pkg not in linked:
            continue
        bad = []
        if (v["file"], v["name"]) not in KNOWN_VARS and not (v["kind"] == "value" and v["type"] in ("string", "int", "bool")):
            bad.append("a package-level variable that the model does not know (%s): state that outlives a call" % v["type"])
        if v["writes"]:
            bad.append("written after initialisation: %s" % v["writes"][:3])
        for c in v["calls"]:
            m = c.split(": ")[-1]
            if m not in ALLOWED_CALLS.get(v["name"], set()):
                bad.append("method call %s" % c)
        for p_ in v["passed"]:
            callee = p_.split(": ", 1)[-1].split("(..")[0]
            if callee not in ALLOWED_PASSED.get(v["name"], set()):
                bad.append("handed to %s" % p_)
        if bad:
            state_problems.append({"variable": "%s (%s) %s" % (v["name"], v["file"], v["type"]), "uses": bad})
        else:
            accepted.append("%s:%s" % (v["file"], v["name"]))
    rep.obligation("no package-level variable of the linked packages is modified after initialisation (%d variables)" % len(accepted), not state_problems)
    sched = [s_ for s_ in listing["scheduling"] if ("github.com/gardenbed/emerge/" + os.path.dirname(s_["file"])) in linked]
    rep.obligation("the linked packages start no goroutine", not sched)
    rep.cov["package_variables"] = accepted

    # ---- M: the hasher model against hashStrings ----
    names = ["x", "aa", "expr", "+", "gen1_star", "é", "if", ""]
    hreqs, hsyms = [], []
    for _ in range(40 if tier == "quick" else 400):
        strs = [[[rng.choice("tn"), rng.choice(names)] for _ in range(rng.randint(0, 4))] for _ in range(rng.randint(0, 4))]
        hreqs.append({"op": "hash_strings", "strings": strs})
    hres = C.hook_batch(hreqs)          # one process: every call after the first meets a used hasher
    cases = []
    for r in hres:
        if r.get("outcome") != "ok":
            continue
        syms = [list(w.encode("utf-8")) for w in r["written"]]
        cases.append("([%s], %d, %s)" % ("; ".join(C.coq_nat_list(s_) for s_ in syms), rng.randrange(2 ** 64), r["hash"]))
    path = os.path.join(C.GEN, "cases_C17.v")
    with open(path, "w") as f:
        f.write(CASES_V % ";\n".join(cases))
    okc, out = C.coqc_file(path, timeout=600)
    m = C.parse_mismatches(out) if okc else None
    rep.obligation("hashStrings == FNV-1 model (Reset; one Write per symbol; Sum64) on %d calls made in one process" % len(cases), m is not None and not m)
    if m is None and ok:
        rep.violation("cases", {"theorem": "gen/cases_C17.v does not compile", "log": out[-2000:]}, no_input=True)
    for i in (m or [])[:2]:
        rep.failure("hash-model", {"hash-model"}, {"request": hreqs[i], "response": hres[i]})

    # ---- sequential processing: every order gives the results of isolated (fresh-process) runs ----
    specs = SPECS + COLLIDING + [S.gen_wellformed(rng) for _ in range(2 if tier == "quick" else 6)]
    iso = [C.hook_batch([{"op": "sequence", "texts": [t], "patterns": []}])[0] for t in specs]
    isop = [C.hook_batch([{"op": "sequence", "texts": [], "patterns": [p_]}])[0] for p_ in PATTERNS]
    base = {t: r["results"][0] for t, r in zip(specs, iso) if r.get("outcome") == "ok"}
    basep = {p_: r["pattern_results"][0] for p_, r in zip(PATTERNS, isop) if r.get("outcome") == "ok"}
    want = 30 if tier == "quick" else 400
    if len(specs) <= 6:
        orders = list(itertools.permutations(range(len(specs))))
        rng.shuffle(orders)
        orders = orders[:want]
    else:                                    # never materialise n! orders
        orders, seen_o = [], set()
        while len(orders) < want:
            o = tuple(rng.sample(range(len(specs)), len(specs)))
            if o not in seen_o:
                seen_o.add(o)
                orders.append(o)
    sreqs = []
    for o in orders:
        po = list(PATTERNS)
        rng.shuffle(po)
        po2 = list(PATTERNS)                  # every pattern a second time, after all the others have run once
        rng.shuffle(po2)
        po = po + po2
        sreqs.append({"op": "sequence", "texts": [specs[i] for i in o] + [specs[o[0]]], "patterns": po})
    sres = C.hook_map(sreqs, timeout_each=120)
    seq_bad = []
    for rq, r in zip(sreqs, sres):
        if not r or r.get("outcome") != "ok":
            seq_bad.append((rq, "no result: %r" % (r,)))
            continue
        for t, got in zip(rq["texts"], r["results"]):
            if t in base and got != base[t] and not c15.only_cfg_verify_order(json.loads(got).get("parse_error", ""), json.loads(base[t]).get("parse_error", "x")):
                seq_bad.append((rq, {"text": t, "alone": base[t][:600], "in_sequence": got[:600]}))
                break
        for p_, got in zip(rq["patterns"], r["pattern_results"]):
            if p_ in basep and got != basep[p_]:
                seq_bad.append((rq, {"pattern": p_, "alone": basep[p_][:400], "in_sequence": got[:400]}))
                break
    # ---- results looked at LATER: every specification of a history is parsed first, then each result is rendered (scanner, table):
    #      what a Parse handed out must still be what it was after other specifications have been parsed
    prec_specs = ['grammar p;\n@left "*";\n@left "+";\nstart = start "+" start | start "*" start | "n";\n',
                  'grammar q;\n@right "!";\n@left "&";\n@left "#";\nstart = "!" start | start "&" start | start "#" start | "t";\n',
                  'grammar r;\n@none "<";\n@left "-";\nstart = start "-" start | start "<" start | "m";\n']
    dspecs = prec_specs + specs
    dbase = dict(base)
    for t, r in zip(prec_specs, [C.hook_batch([{"op": "sequence", "texts": [t], "patterns": []}])[0] for t in prec_specs]):
        if r.get("outcome") == "ok":
            dbase[t] = r["results"][0]
    dreqs = []
    for _ in range(12 if tier == "quick" else 150):
        o = rng.sample(range(len(dspecs)), min(len(dspecs), 6))
        dreqs.append({"op": "sequence", "deferred": True, "texts": [dspecs[i] for i in o] + [dspecs[o[0]]], "patterns": []})
    dreqs.append({"op": "sequence", "deferred": True, "texts": prec_specs + prec_specs[:1], "patterns": []})
    for rq, r in zip(dreqs, C.hook_map(dreqs, timeout_each=120)):
        if not r or r.get("outcome") != "ok":
            seq_bad.append((rq, "no result: %r" % (r,)))
            continue
        for t, got in zip(rq["texts"], r["results"]):
            if t in dbase and got != dbase[t] and not c15.only_cfg_verify_order(json.loads(got).get("parse_error", ""), json.loads(dbase[t]).get("parse_error", "x")):
                seq_bad.append((rq, {"text": t, "alone": dbase[t][:600], "rendered_after_the_other_parses": got[:600]}))
                break
    rep.obligation("sequential: %d orders of %d specifications and %d patterns give the isolated results; %d histories rendered after all their parses too"
                   % (len(orders), len(specs), len(PATTERNS), len(dreqs)), not seq_bad)
    for rq, why in seq_bad[:2]:
        rep.failure("sequence", {"sequence"}, {"history": rq["texts"], "patterns": rq["patterns"], "difference": why})

    # ---- concurrent processing under the race detector ----
    exe = race_hook()
    repo_races, dep_races, conc = {}, {}, None
    if exe is None:
        rep.cov["race_detector"] = "unavailable (cgo build failed): concurrent runs skipped"
    else:
        req = {"op": "concurrent", "texts": SPECS * 2, "rounds": 3 if tier == "quick" else 12, "copies": 2 if tier == "quick" else 4}
        try:
            p = subprocess.run([exe], input=json.dumps(req) + "\n", stdout=subprocess.PIPE, stderr=subprocess.PIPE, text=True, timeout=900,
                               env=dict(os.environ, GORACE="halt_on_error=0 history_size=2"))
            repo_races, dep_races = classify_races(p.stderr)
            try:
                conc = json.loads(p.stdout.strip().split("\n")[-1])
            except Exception:
                conc = {"outcome": "crash", "stderr_tail": p.stderr[-1500:]}
        except subprocess.TimeoutExpired:
            conc = {"outcome": "timeout"}
        rep.cov["race_detector"] = {"reports_owned_by_repo": len(repo_races), "reports_owned_by_dependency": len(dep_races)}
    rep.obligation("concurrent: no unsynchronised access to state owned by /repo (race detector, %d goroutines)" % (len(SPECS) * 2 * 2), not repo_races)
    for key, text in list(repo_races.items())[:2]:
        rep.failure("race", {"race"}, {"owners": key, "report": text, "texts": SPECS,
                                       "model": "Emerge/Shared.v shared_hasher_refuted: schedule [1;1;2;2;1] of Reset/Write/Sum64 returns the other goroutine's hash"})
    conc_bad = bool(conc and (conc.get("differing") or conc.get("outcome") != "ok"))
    if dep_races or conc_bad:
        sample = next(iter(dep_races.values()), "")
        diff = ""
        if conc and conc.get("concurrent"):
            diff = conc["concurrent"][0][:1500]
        elif conc_bad:
            diff = json.dumps(conc)[:1500]
        # Who is to blame for a wrong or panicking concurrent result is decided by the race detector, not by where the panic
        # surfaces: corrupted state of the dependency's shared hashers (D20) can make any later frame fail, also one of /repo.
        # /repo is blamed when it owns unsynchronised state itself, or when nothing of the dependency raced.
        if conc_bad and (repo_races or not dep_races):
            rep.failure("concurrent-result", {"concurrent-result"}, {"texts": SPECS, "result": diff,
                        "races_owned_by_repo": sorted(repo_races)[:6], "races_owned_by_dependency": sorted(dep_races)[:6]})
        if dep_races:
            rep.failure("dependency-shared-hashers", {"dependency-shared-hashers"},
                        {"texts": SPECS, "owners": sorted(dep_races)[:6], "report": sample, "concurrent_result": diff})

    if state_problems:
        for pr in state_problems[:3]:
            rep.violation("state", dict(pr, theorem="C17 package-variable table: variable modified after initialisation"),
                          no_input=not (repo_races or seq_bad))

    rep.cov["evaluations"] = len(cases) + len(orders) * (len(specs) + 1 + len(PATTERNS)) + len(SPECS) * 4 * 3
    rep.cov["distinct_nontrivial"] = len(cases) + len(orders)
    rep.cov["rule"] = ("package variables: translator listing (writes, method calls, escapes) against the accepted read-only uses; hasher: hashStrings vs the "
                       "FNV-1 model on calls made one after the other in one process; sequential: random orders of specifications and patterns in one process "
                       "vs fresh-process results; concurrent: goroutines under the race detector, reports attributed to the owner of the state")
    rep.cov["input_distribution"] = {"hash_calls": len(cases), "orders": len(orders), "specifications": len(specs), "patterns": len(PATTERNS)}
    rep.cov["partial"] = ["interleavings are modelled for /repo's own shared state only; the Go memory model is not modelled",
                          "the dependency's package-level hash functions are shared by all parses (known finding D20): concurrent parses race and panic inside moorara/algo"]
    if not ok and not rep.violations:
        rep.violation("proof", {"theorem": "Props/C17.v", "log": log[-2500:]}, no_input=True)
    return rep.finish()


def replay(path):
    d = json.load(open(path))
    print(json.dumps({k: d[k] for k in d if k != "log"}, indent=1)[:3000])
    return 1
