"""C02 — token patterns compile to automata that accept exactly the pattern's language (NFA route, every stage)."""
import json
import os

from . import common as C
from . import regexfam as R

PROP = "C02"
STAGES = ["dfa", "min", "pruned", "reindexed"]


def patterns_for(tier, rng):
    pats = R.corpus(PROP) + list(R.EVERY_CONSTRUCT) + list(R.EDGE_BLANKS) + list(R.EXTREME_GROUPS) + list(R.PROBLEM) + list(R.ALL_ESCAPES)
    pats += [a + q for a in R.ATOMS for q in R.QUANTS]
    n = 150 if tier == "quick" else 3000
    for _ in range(n):
        pats.append(R.gen_tree(rng, rng.randint(1, 4)))
    if tier != "quick":
        pats += R.small_exhaustive()
    seen, out = set(), []
    for p in pats:
        if p not in seen and "\x00" not in p and len(p) < 80:
            seen.add(p)
            out.append(p)
    return out


def check(tier):
    rep = C.Report(PROP, tier, "proof")
    rng = C.rng_for(PROP)
    try:
        tr = R.regen()
    except C.BuildError as e:
        rep.obligation("translate regex tables", False)
        rep.violation("translator", {"theorem": "gen/RuneGo.v cannot be regenerated", "detail": str(e)}, no_input=True)
        return rep.finish()

    ok, log = C.coq_make(["theories/Props/C02.vo"])
    thms = ["expansion_is_documented_meaning", "ascii_universe_with_nul", "full_statement_refuted", "class_tables_standard",
            "certified_instance_guarded", "certified_instance_impl", "guard_holds_somewhere", "predefs_accepted", "model_example"]
    failed_thm = None
    if not ok:
        for t in thms:
            pass
        import re
        m = re.search(r'File "\./theories/Props/C02\.v", line (\d+)', log)
        failed_thm = "Props/C02.v line %s" % (m.group(1) if m else "?")
    for t in thms:
        rep.obligation("Props/C02.v: " + t, ok)
    rep.cov["print_assumptions"] = "Closed under the global context x%d" % log.count("Closed under the global context") if ok else "n/a"

    pats = patterns_for(tier, rng)
    res = C.hook_map([{"op": "regex", "pattern": p} for p in pats], timeout_each=10)
    cases = []
    dist = {"accepted": 0, "syntax": 0, "semantic": 0, "other": 0, "stages": 0, "too_slow_skipped": 0}
    for p, r in zip(pats, res):
        if r.get("outcome") == "slow":
            dist["too_slow_skipped"] += 1
            continue
        route = r.get("nfa", {"outcome": r.get("outcome")})
        code = R.impl_code(route)
        autos = []
        if code == 0:
            autos = [route[s] for s in STAGES]
            pl = r.get("pipeline", {})
            if pl.get("outcome") == "ok":
                autos.append(pl["dfa"])
        dist[["accepted", "syntax", "semantic", "other"][code]] += 1
        dist["stages"] += len(autos)
        cases.append((p, code, autos))
    bad, out = R.run_case_file("cases_C02", cases)
    rep.cov["evaluations"] = len(cases)
    rep.cov["undecided_slow_patterns"] = [cases[i][0] for i in R.LAST.get("slow", [])][:10]
    rep.cov["programs"] = dist["stages"]
    rep.cov["distinct_nontrivial"] = sum(1 for p, code, a in cases if code == 0 and len(p) >= 3)
    rep.cov["rule"] = ("patterns = corpus + every documented construct once + every atom x every quantifier form + problem patterns + "
                       "random trees (depth<=4); every accepted pattern contributes 5 automata (after ToDFA, Minimize, EliminateDeadStates, "
                       "ReindexStates, and the token pipeline's result), each certified equal in language to the model for ALL strings; "
                       "non-trivial = accepted and at least 3 characters")
    rep.cov["input_distribution"] = dist
    rep.cov["samples"] = [{"pattern": p, "impl": code, "automata": len(a)} for p, code, a in cases[40:46]]
    if bad is None:
        rep.obligation("instance file compiles", False)
        if not ok:
            bad = []
        else:
            rep.violation("cases", {"theorem": "gen/cases_C02_*.v does not compile", "log": out[-3000:]}, no_input=True)
            return rep.finish()
    rep.obligation("certified instances + correspondence on %d patterns (%d automata)" % (len(cases), dist["stages"]), not bad)
    known_idx = [i for i in R.LAST["known"] if i not in set(bad)]
    k = rep.match_known({"pattern-set-contains-nul"})
    if known_idx:
        if k is not None:
            for _ in known_idx:
                rep.known_finding(k)
            rep.cov["known_finding_D3_patterns"] = [cases[i][0] for i in known_idx[:8]]
        else:
            i = known_idx[0]
            rep.violation("language", {"pattern": cases[i][0], "what_fails": "a set of the pattern contains NUL, which the automaton treats as epsilon",
                                       "string_codepoints": [], "documented_meaning_matches": None})
    rep.cov["partial"] = ["full_statement_refuted (known finding D3)", "certified_instance_guarded"]
    rep.cov["disagreements_checked"] = len(bad)

    found_input = False
    if bad:
        found_input = explain(rep, [cases[i] for i in bad])
    if not ok and not found_input:
        # a theorem on the regenerated tables no longer checks; look for a pattern/string showing it
        found_input = probe_universe(rep)
        if not found_input:
            rep.violation("proof", {"theorem": failed_thm, "log": log[-2500:]}, no_input=True)
    return rep.finish()


WITNESS_V = """From Coq Require Import String List Bool NArith.
From Verif Require Import Base.CharSet Reg.Dfa Reg.Regex Reg.EquivCheck Reg.Pattern Reg.PatSem Reg.PatCheck.
From VerifGen Require Import RuneGo.
Import ListNotations.
Local Open Scope N_scope.
Definition cases : list case := [
%s
].
Definition W := Eval vm_compute in map (fun c => (model_code escaped ascii_names uni_cats cls_letters rune_classes (fst (fst c)),
                                                   case_witness escaped ascii_names uni_cats cls_letters rune_classes c)) cases.
Print W.
"""


def parse_coq_value(txt):
    """Parse the printed Coq value of W (lists, pairs, options, numbers, booleans) into Python."""
    import re
    toks = re.findall(r"\[|\]|\(|\)|;|,|Some|None|true|false|\d+", txt.replace("%N", ""))
    pos = [0]

    def val():
        t = toks[pos[0]]
        pos[0] += 1
        if t == "[":
            out = []
            if toks[pos[0]] == "]":
                pos[0] += 1
                return out
            while True:
                out.append(val())
                t2 = toks[pos[0]]
                pos[0] += 1
                if t2 == "]":
                    return out
        if t == "(":
            out = [val()]
            while toks[pos[0]] == ",":
                pos[0] += 1
                out.append(val())
            pos[0] += 1  # )
            return tuple(out) if len(out) > 1 else out[0]
        if t == "Some":
            return ("Some", val())
        if t == "None":
            return None
        if t == "true":
            return True
        if t == "false":
            return False
        return int(t)
    return val()


def coq_witnesses(name, cases):
    path = os.path.join(C.GEN, name + ".v")
    with open(path, "w") as f:
        f.write(WITNESS_V % ";\n".join(R.case_term(*c) for c in cases))
    ok, out = C.coqc_file(path)
    if not ok:
        return None
    i = out.find("W = ")
    j = out.rfind(": list")
    try:
        return parse_coq_value(out[i + 4:j])
    except Exception:
        return None


def explain(rep, bad_cases, route="pipeline", prop=PROP):
    """For each disagreeing case find a concrete failing input and report it (grouped by kind)."""
    bad_cases = bad_cases[:40]
    ws = coq_witnesses("witness_" + prop, bad_cases)
    found = False
    reported = set()
    names = ["accepted", "rejected as not a sentence of the pattern grammar", "rejected as meaningless (range)", "failed otherwise"]
    for k, (p, code, autos) in enumerate(bad_cases):
        mcode, wit = (ws[k] if ws and k < len(ws) else (None, []))
        if mcode is not None and mcode != code:
            key = ("outcome", mcode, code)
            if key in reported:
                continue
            reported.add(key)
            found = True
            rep.failure("outcome", {"pattern-outcome:model=%d:impl=%d" % (mcode, code), "pattern=" + p},
                        {"pattern": p, "model": names[mcode], "implementation": names[code],
                         "replay": "./check %s --replay <this file>" % prop})
            continue
        # language difference: take the first automaton with a witness and replay it through the real code
        for w in wit or []:
            if w is None:
                continue
            word, model_says = w[1]
            r = C.hook_batch([{"op": "dfa_accept", "pattern": p, "words": [word]}])[0]
            acc = r.get(route, {}).get("accept", [None])[0]
            kind = "over-match" if not model_says else "under-match"
            key = ("lang", kind)
            if acc is not None and acc != model_says:
                found = True
                if key not in reported:
                    reported.add(key)
                    rep.failure("language", {"pattern-language:" + kind, "pattern=" + p},
                                {"pattern": p, "string_codepoints": word, "string": "".join(chr(c) for c in word),
                                 "documented_meaning_matches": model_says, "real_automaton_accepts": acc, "route": route})
                break
            elif key not in reported:
                # an intermediate stage differs but the final automaton agrees on this word
                reported.add(key)
                found = True
                rep.failure("stage", {"pattern-stage-language", "pattern=" + p},
                            {"pattern": p, "string_codepoints": word, "documented_meaning_matches": model_says,
                             "note": "an intermediate automaton (stage dump) disagrees with the model on this string"})
                break
    if bad_cases and not found:
        rep.violation("instances", {"theorem": "certified instance / correspondence (gen/cases_%s_*.v)" % prop,
                                    "patterns": [c[0] for c in bad_cases[:10]]}, no_input=True)
        found = True
    return found


def probe_universe(rep):
    """The universe/class theorems broke: look for a pattern and string on which the real automaton is wrong."""
    probes = [("a.b", [97, 98], False), ("[^a]b", [98], False), (".", [], False), ("\\Dx", [120], False),
              ("\\d", [0x661], False), ("\\w", [0xE9], False), ("\\s", [11], False), ("[[:space:]]", [11], True),
              ("[:xdigit:]", [103], False), ("[:ascii:]a", [97], False)]
    res = C.hook_batch([{"op": "dfa_accept", "pattern": p, "words": [w]} for p, w, _ in probes])
    for (p, w, exp), r in zip(probes, res):
        acc = r.get("pipeline", {}).get("accept", [None])[0]
        if acc is not None and acc != exp:
            rep.failure("language", {"pattern-language:class-table", "pattern=" + p},
                        {"pattern": p, "string_codepoints": w, "documented_meaning_matches": exp, "real_automaton_accepts": acc})
            return True
    return False


def replay(path):
    d = json.load(open(path))
    if "pattern" not in d:
        print("replay names an obligation, not an input:", d.get("theorem"))
        return 1
    if "string_codepoints" in d:
        r = C.hook_batch([{"op": "dfa_accept", "pattern": d["pattern"], "words": [d["string_codepoints"]]}])[0]
        acc = r.get(d.get("route", "pipeline"), {}).get("accept", [None])[0]
        print("pattern %r string %r: real automaton accepts = %s, documented meaning matches = %s"
              % (d["pattern"], d["string_codepoints"], acc, d["documented_meaning_matches"]))
        return 0 if acc == d["documented_meaning_matches"] else 1
    r = C.hook_batch([{"op": "regex", "pattern": d["pattern"]}])[0]
    print("pattern %r: implementation outcome now: nfa=%s ast=%s; model said: %s"
          % (d["pattern"], r.get("nfa", {}).get("outcome"), r.get("ast", {}).get("outcome"), d.get("model")))
    return 1
