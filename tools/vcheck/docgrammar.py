"""The documented EBNF grammar (docs/5-definitions.md) as an independent oracle:
 - the fenced grammar block is parsed (its own EBNF operators expanded into plain productions),
 - an Earley recogniser decides membership and viable prefixes EXACTLY for that (ambiguous) grammar,
 - a recursive-descent parser builds the tree the published precedence list dictates
   (juxtaposition tighter than '|', '|' groups to the right, trailing '|' = empty alternative,
   handles and operands consumed greedily).
These are search/correspondence oracles; no verdict of a Coq theorem depends on them."""
import os
import re

from . import common as C


def doc_block():
    md = open(os.path.join(C.REPO, "docs", "5-definitions.md")).read()
    i = md.find("## Extended Backus-Naur Form")
    j = md.find("### Grammar", i)
    m = re.compile(r"```\n(.*?)\n```", re.S).search(md, j)
    if not m:
        raise RuntimeError("docs/5-definitions.md: EBNF grammar block not found")
    return m.group(1)


def tokenize(line):
    toks = []
    for m in re.finditer(r'\s+|"[^"]*"|\{\{|\}\}|[A-Za-z_@][A-Za-z_0-9]*|[=|()\[\]{}]', line):
        t = m.group(0)
        if not t.strip():
            continue
        toks.append(t)
    return toks


class DocGrammar:
    """Plain CFG: prods = list of (head, [symbols]); terminals are token kinds of the scanner."""

    def __init__(self):
        self.prods = []
        self.counter = 0
        rules = {}
        for line in doc_block().split("\n"):
            if not line.strip():
                continue
            head, rhs = line.split("=", 1)
            rules[head.strip()] = tokenize(rhs)
        self.nonterminals = set(rules)
        self.start = "grammar"
        for head, toks in rules.items():
            self.pos, self.toks = 0, toks
            alts = self.parse_alt()
            if self.pos != len(toks):
                raise RuntimeError("doc grammar: cannot parse rule %s at %r" % (head, toks[self.pos:]))
            for a in alts:
                self.prods.append((head, a))
        # "IDENT", "TOKEN", ... and quoted strings are terminals
        self.by_head = {}
        for h, b in self.prods:
            self.by_head.setdefault(h, []).append(b)

    def fresh(self, kind):
        self.counter += 1
        n = "_%s%d" % (kind, self.counter)
        self.nonterminals.add(n)
        return n

    def peek(self):
        return self.toks[self.pos] if self.pos < len(self.toks) else None

    def parse_alt(self):
        """returns list of alternatives (each a list of symbols)"""
        alts = [self.parse_cat()]
        while self.peek() == "|":
            self.pos += 1
            alts.append(self.parse_cat())
        return alts

    def parse_cat(self):
        out = []
        while self.peek() is not None and self.peek() not in ("|", ")", "]", "}", "}}"):
            out.append(self.parse_item())
        return out

    def parse_item(self):
        t = self.peek()
        self.pos += 1
        if t in ("(", "[", "{", "{{"):
            close = {"(": ")", "[": "]", "{": "}", "{{": "}}"}[t]
            alts = self.parse_alt()
            if self.peek() != close:
                raise RuntimeError("doc grammar: expected %s" % close)
            self.pos += 1
            n = self.fresh({"(": "grp", "[": "opt", "{": "star", "{{": "plus"}[t])
            if t == "(":
                for a in alts:
                    self.prods.append((n, a))
            elif t == "[":
                for a in alts:
                    self.prods.append((n, a))
                self.prods.append((n, []))
            elif t == "{":
                for a in alts:
                    self.prods.append((n, [n] + a))
                self.prods.append((n, []))
            else:
                for a in alts:
                    self.prods.append((n, [n] + a))
                    self.prods.append((n, a))
            return n
        if t.startswith('"'):
            return ("t", t[1:-1])
        if t.isupper():
            return ("t", t)
        return t  # non-terminal

    # ---- Earley recogniser over token-kind sequences
    def earley(self, toks):
        """Returns (accepted, viable) where viable[i] tells whether toks[:i] is a viable prefix (i = 0..len)."""
        n = len(toks)
        sets = [set() for _ in range(n + 1)]
        START = "_S"
        sets[0].add((START, (self.start,), 0, 0))
        nullable = self.nullable()
        viable = [False] * (n + 1)
        for i in range(n + 1):
            work = list(sets[i])
            while work:
                head, body, dot, origin = work.pop()
                if dot < len(body):
                    X = body[dot]
                    if isinstance(X, tuple):
                        if i < n and toks[i] == X[1]:
                            sets[i + 1].add((head, body, dot + 1, origin))
                    else:
                        for b in self.by_head.get(X, []):
                            it = (X, tuple(b), 0, i)
                            if it not in sets[i]:
                                sets[i].add(it)
                                work.append(it)
                        if X in nullable:
                            it = (head, body, dot + 1, origin)
                            if it not in sets[i]:
                                sets[i].add(it)
                                work.append(it)
                else:
                    for (h2, b2, d2, o2) in list(sets[origin]):
                        if d2 < len(b2) and b2[d2] == head:
                            it = (h2, b2, d2 + 1, o2)
                            if it not in sets[i]:
                                sets[i].add(it)
                                work.append(it)
            viable[i] = len(sets[i]) > 0
            if not sets[i]:
                break
        accepted = (START, (self.start,), 1, 0) in sets[n]
        return accepted, viable

    def nullable(self):
        nl = set()
        changed = True
        while changed:
            changed = False
            for h, b in self.prods:
                if h not in nl and all((not isinstance(x, tuple)) and x in nl for x in b):
                    nl.add(h)
                    changed = True
        return nl


_dg = {}


def doc_grammar():
    if "g" not in _dg:
        _dg["g"] = DocGrammar()
    return _dg["g"]


# ------------------------------------------------------------------ the dictated tree (recursive descent)

class RD:
    """Builds the tree (in terms of the production numbers of the code's grammar, looked up by shape) that the
    published precedence list dictates.  Tokens are kinds; leaves are ('leaf', kind, index)."""

    def __init__(self, toks, prod_index):
        self.t, self.i, self.px = toks, 0, prod_index

    def peek(self):
        return self.t[self.i] if self.i < len(self.t) else None

    def leaf(self, kind):
        if self.peek() != kind:
            raise SyntaxError(self.i)
        self.i += 1
        return ("leaf", kind, self.i - 1)

    def node(self, head, kids):
        body = []
        for k in kids:
            body.append(("t", k[1]) if k[0] == "leaf" else ("n", k[3]))
        return ("node", self.px(head, body), kids, head)

    def semi_opt(self):
        if self.peek() == ";":
            return self.node("semi_opt", [self.leaf(";")])
        return self.node("semi_opt", [])

    def grammar(self):
        name = self.node("name", [self.leaf("grammar"), self.leaf("IDENT"), self.semi_opt()])
        decls = self.node("decls", [])
        while self.peek() is not None:
            decls = self.node("decls", [decls, self.decl()])
        return self.node("grammar", [name, decls])

    def decl(self):
        k = self.peek()
        if k == "TOKEN":
            a, b = self.leaf("TOKEN"), self.leaf("=")
            if self.peek() not in ("STRING", "REGEX", "PREDEF"):
                raise SyntaxError(self.i)
            tok = self.node("token", [a, b, self.leaf(self.peek())])
            return self.node("decl", [tok, self.semi_opt()])
        if k in ("@left", "@right", "@none"):
            kw = self.leaf(k)
            hs = None
            while self.peek() in ("TOKEN", "STRING", "<"):
                if self.peek() == "<":
                    lt = self.leaf("<")
                    r = self.rule()
                    h = self.node("rule_handle", [lt, r, self.leaf(">")])
                else:
                    h = self.node("term", [self.leaf(self.peek())])
                hs = self.node("handles", [h] if hs is None else [hs, h])
            if hs is None:
                raise SyntaxError(self.i)
            d = self.node("directive", [kw, hs])
            return self.node("decl", [d, self.semi_opt()])
        if k == "IDENT":
            r = self.rule()
            return self.node("decl", [r, self.leaf(";")])
        raise SyntaxError(self.i)

    def rule(self):
        lhs = self.node("lhs", [self.node("nonterm", [self.leaf("IDENT")])])
        eq = self.leaf("=")
        if self.starts_operand():
            return self.node("rule", [lhs, eq, self.alt()])
        return self.node("rule", [lhs, eq])

    def starts_operand(self):
        return self.peek() in ("(", "[", "{", "{{", "IDENT", "TOKEN", "STRING")

    def alt(self):
        left = self.cat()
        while self.peek() == "|":
            bar = self.leaf("|")
            if self.starts_operand():
                left = self.node("rhs", [left, bar, self.alt()])
            else:
                left = self.node("rhs", [left, bar])
        return left

    def cat(self):
        left = self.operand()
        while self.starts_operand():
            left = self.node("rhs", [left, self.operand()])
        return left

    def operand(self):
        k = self.peek()
        if k in ("(", "[", "{", "{{"):
            close = {"(": ")", "[": "]", "{": "}", "{{": "}}"}[k]
            o = self.leaf(k)
            a = self.alt()
            return self.node("rhs", [o, a, self.leaf(close)])
        if k == "IDENT":
            return self.node("rhs", [self.node("nonterm", [self.leaf("IDENT")])])
        if k in ("TOKEN", "STRING"):
            return self.node("rhs", [self.node("term", [self.leaf(k)])])
        raise SyntaxError(self.i)


def dictated_tree(toks, T):
    """('ok', tree) | ('error', index of the offending token or len(toks))"""
    def px(head, body):
        h = T.nidx[head]
        b = [("t", T.tidx[x]) if k == "t" else ("n", T.nidx[x]) for k, x in body]
        return T.prods.index((h, b))
    rd = RD(toks, px)
    try:
        t = rd.grammar()
    except SyntaxError as e:
        return ("error", e.args[0])
    except ValueError:
        return ("error", rd.i)

    def conv(n):
        if n[0] == "leaf":
            return ("leaf", T.tidx[n[1]], n[2])
        return ("node", n[1], [conv(c) for c in n[2]])
    return ("ok", conv(t))
