"""C12 — the recorded precedence levels are exactly the directives, in order, with their handles."""
import json
import os

from . import common as C
from . import specfam as S
from . import c01

PROP = "C12"

CASES_V = """(* GENERATED: correspondence cases for C12 *)
From Coq Require Import String List Bool NArith.
From Verif Require Import Reg.MaxMunch Cfg.Ebnf Cfg.Translate Emerge.SpecModel Emerge.SpecWf Emerge.Pipeline.
Import ListNotations.
Local Open Scope string_scope.
Definition case := (list N * list (nat * list phandle))%%type.
(* levels recorded by spec.Parse == levels of the model (order, associativity, handle sets) *)
Definition agrees (c : case) : bool :=
  match front (fst c) with
  | FSpec _ ds => levels_eqb (s_precs (translate_spec ds)) (snd c)
  | _ => false
  end.
(* the model's levels == the declarative reading of the directives; production handles are productions of the grammar *)
Definition declarative (c : case) : bool :=
  match front (fst c) with
  | FSpec _ ds => levels_eqb (s_precs (translate_spec ds)) (directive_levels (spec_nu ds) ds)
                  && handles_are_productions (translate_spec ds)
  | _ => true
  end.
Definition cases : list case := [
%s
].
Definition M := Eval vm_compute in mismatches agrees 0%%N cases.
Print M.
Definition W := Eval vm_compute in mismatches declarative 0%%N cases.
Print W.
"""

ASSOC = {"LEFT": 0, "RIGHT": 1, "NONE": 2}


def gen_directive(rng, names, pool, used_rules):
    hs = []
    for _ in range(rng.randint(1, 4)):
        k = rng.random()
        if k < 0.5 and pool:
            hs.append(pool.pop())
        else:
            for _try in range(5):
                body = S.gen_body(rng, names, rng.randint(0, 2), [])
                if rng.random() < 0.1:
                    body = ""
                key = (rng.choice(names), body)
                if key not in used_rules:
                    used_rules.add(key)
                    hs.append("<%s = %s>" % key)
                    break
    if not hs:
        return None
    if rng.random() < 0.15:
        hs.append(hs[0])          # duplicate inside a level
    return "%s %s;" % (rng.choice(["@left", "@right", "@none"]), " ".join(hs))


def gen_spec(rng):
    base = S.gen_wellformed(rng, collide=0.1)
    lines = [l for l in base.split("\n") if l.strip()]
    head, decls = lines[0], [l for l in lines[1:] if not l.startswith("@")]
    names = [l.split(" = ")[0] for l in decls if l and l[0].islower()]
    for t in S.TOKS:
        if not any(l.startswith(t + " =") for l in decls):
            decls.append("%s = %s;" % (t, S.TOKDEFS[t]))
    pool = S.LITS[:7] + S.TOKS
    rng.shuffle(pool)
    used_rules = set()
    if rng.random() < 0.1:
        pool = pool + pool[:1]      # now and then a handle in two levels (rejected: Precedences.Verify)
    made = []
    for _ in range(rng.randint(0, 8)):
        d = gen_directive(rng, names or ["start"], pool, used_rules)
        if d:
            decls.insert(rng.randrange(len(decls) + 1), d)
            made.append(d)
    if made and rng.random() < 0.12:
        # now and then a whole directive written twice (rejected: every handle then sits in two levels; a level is never merged away)
        decls.insert(rng.randrange(len(decls) + 1), rng.choice(made))
    # every literal/token used in a directive gets used in a rule as well, so that the grammar knows it
    decls.append("zz_all = %s;" % " ".join(S.LITS[:7] + S.TOKS))
    return head + "\n" + "\n".join(decls) + "\n"


def level_term(lv):
    hs = ["PHTerm %s" % C.coq_string(t) for t in lv["terms"]]
    for p in lv["prods"]:
        hs.append("PHProd %s [%s]" % (C.coq_string(p["head"]), "; ".join(S.sym_term(x) for x in p["body"])))
    return "(%d%%nat, [%s])" % (ASSOC[lv["assoc"]], "; ".join(hs))


def check(tier):
    rep = C.Report(PROP, tier, "proof")
    rng = C.rng_for(PROP)
    try:
        c01.regen_all()
    except C.BuildError as e:
        rep.obligation("translate sources", False)
        rep.violation("translator", {"theorem": "generated tables cannot be regenerated", "detail": str(e)}, no_input=True)
        return rep.finish()
    ok, log = C.coq_make(["theories/Props/C12.vo"])
    for t in ["levels_are_the_directives_in_order", "level_terminals_are_the_ones_written",
              "every_production_handle_is_a_production_of_the_grammar", "recorded_levels_are_exactly_the_directives", "levels_example"]:
        rep.obligation("Props/C12.v: " + t, ok)
    rep.cov["print_assumptions"] = "Closed under the global context x%d" % log.count("Closed under the global context") if ok else "n/a"

    # well-formed specifications whose rule handles are easily confused: bodies and heads whose names run together to the same text
    # (`a bc` / `ab c`, `ea = b` / `e = ab`), in one level, as alternatives of one handle, and in two levels
    rules_ = 'start = e ea;\ne = a bc | ab c | abc | "x";\nea = b | "y";\na = "a";\nb = "b";\nc = "c";\nab = "ab";\nbc = "bc";\nabc = "abc";\n'
    fixtures = ['grammar g;\n@left <e = a bc> <e = ab c>;\n' + rules_,
                'grammar g;\n@left <e = a bc | ab c>;\n@right <e = abc>;\n' + rules_,
                'grammar g;\n@left <e = a bc>;\n@right <e = ab c>;\n@none <e = abc>;\n' + rules_,
                'grammar g;\n@left <ea = b>;\n@right <e = abc>;\n' + rules_,
                'grammar g;\n' + rules_ + '@right <e = ab c> "x";\n@left "y" <e = a bc>;\n',
                # terminals that stand in a directive and in no rule body (a defined token, a literal): they are handles all the same
                'grammar g;\nNUM = /[0-9]+/\nUNUSED = "u"\n@left "+" "-"\n@right "^" UNUSED\nstart = e;\ne = e "+" e | e "^" e | NUM;\n',
                'grammar g;\nONLYHERE = "oh";\n@none ONLYHERE "never";\n@left "x";\n' + rules_,
                # a handle restated inside ONE level (a level is a set: the directive grammar allows it and it is recorded once)
                'grammar g;\n@left "x" "y" <e = a bc> "x";\n' + rules_,
                'grammar g;\nNUM = /[0-9]+/;\n@none NUM "x" NUM;\n@left <e = abc> "y" <e = abc>;\nn = NUM;\n' + rules_]
    texts = fixtures + [gen_spec(rng) for _ in range(80 if tier == "quick" else 2500)]
    texts = [t for t in dict.fromkeys(texts) if S.printable(t)]
    res = C.hook_map([{"op": "spec", "text": t} for t in texts], timeout_each=20)
    cases, dist = [], {"accepted": 0, "rejected": 0, "levels": 0, "rule_handles": 0}
    rejected = []
    for t, r in zip(texts, res):
        if r.get("outcome") == "ok" and r.get("spec"):
            lv = r["spec"]["precedences"]
            dist["accepted"] += 1
            dist["levels"] += len(lv)
            dist["rule_handles"] += sum(len(x["prods"]) for x in lv)
            cases.append((t, lv))
        else:
            dist["rejected"] += 1
            rejected.append((t, r.get("error", "")))
    paths, offs = [], []
    shard = 30
    for o in range(0, len(cases), shard):
        path = os.path.join(C.GEN, "cases_C12_%d.v" % (o // shard))
        with open(path, "w") as f:
            f.write(CASES_V % ";\n".join("(%s, [%s])" % (C.coq_nat_list(C.codepoints(t)).replace("[", "[").replace("; ", "%N; ", 1) if False else
                                                          "(" + C.coq_nat_list(C.codepoints(t)) + ")%N", "; ".join(level_term(l) for l in lv))
                                          for t, lv in cases[o:o + shard]))
        paths.append(path)
        offs.append(o)
    bad, decl_bad, cerr = [], [], None
    for (okc, out), o in zip(C.coqc_many(paths, timeout=900), offs):
        m = C.parse_mismatches(out) if okc else None
        w = C.parse_mismatches(out, "W") if okc else None
        if m is None or w is None:
            cerr = out
            break
        bad.extend(o + x for x in m)
        decl_bad.extend(o + x for x in w)
    rep.cov["evaluations"] = len(cases)
    rep.cov["distinct_nontrivial"] = sum(1 for t, lv in cases if len(lv) >= 2)
    rep.cov["rule"] = ("specifications with 0-8 directives of every associativity, string and named terminals, rule handles with alternation and "
                       "extended operators (and empty bodies), duplicates inside a level, interleaved with token and rule declarations; the "
                       "levels of spec.Parse are compared with the Coq model, the model with the declarative reading; non-trivial = at least 2 levels")
    rep.cov["input_distribution"] = dist
    rep.cov["samples"] = [{"text": t, "levels": lv} for t, lv in cases[2:4]]
    if cerr is not None:
        rep.obligation("correspondence cases compile", False)
        if ok:
            rep.violation("cases", {"theorem": "gen/cases_C12_*.v does not compile", "log": cerr[-3000:]}, no_input=True)
        return rep.finish()
    refused = [(t, e) for t, e in rejected if t in fixtures]
    rep.obligation("the %d well-formed specifications with easily confused rule handles are accepted" % len(fixtures), not refused)
    for t, e in refused[:2]:
        rep.failure("levels", {"levels-rejected"}, {"input_text": t, "reported": str(e)[:400], "why": "every handle sits in one level only; the specification is well-formed"})
    rep.obligation("correspondence: Spec.Precedences == Coq model on %d specifications (%d levels)" % (len(cases), dist["levels"]), not bad)
    rep.obligation("model == declarative reading of the directives; production handles are grammar productions", not decl_bad)
    for i in bad[:3]:
        rep.failure("levels", {"levels"}, {"input_text": cases[i][0], "observed_levels": cases[i][1]})
    for i in decl_bad[:3]:
        rep.failure("declarative", {"declarative"}, {"input_text": cases[i][0], "observed_levels": cases[i][1]})
    if not ok and not rep.violations:
        rep.violation("proof", {"theorem": "Props/C12.v", "log": log[-2500:]}, no_input=True)
    return rep.finish()


def replay(path):
    d = json.load(open(path))
    if "input_text" not in d:
        print("replay names an obligation:", d.get("theorem"))
        return 1
    r = C.hook_batch([{"op": "spec", "text": d["input_text"]}])[0]
    print("levels now:", json.dumps((r.get("spec") or {}).get("precedences")), "recorded:", json.dumps(d.get("observed_levels")))
    return 1
