"""Shared machinery of the LR properties: translation of parsing_table.go -> gen/TableGo.v, the
known-suffix annotation (computed here, CHECKED by Coq's safe_check), a Python mirror of the driver
(search only), spec/token-sequence generators."""
import json
import os

from . import common as C


def translate_table():
    C.build_tools()
    p = C.run([os.path.join(C.BIN, "gotrans"), "table", os.path.join(C.REPO, "internal/ebnf/parser/parsing_table.go")])
    if p.returncode != 0:
        raise C.BuildError("gotrans table: " + p.stderr.strip())
    return json.loads(p.stdout)


class Table:
    """Index form of a translated / dumped table."""

    def __init__(self, terminals, nonterminals, productions, start, action, goto):
        self.terms = list(terminals)
        self.nts = list(nonterminals)
        self.tidx = {t: i for i, t in enumerate(self.terms)}
        self.nidx = {n: i for i, n in enumerate(self.nts)}
        self.eof = len(self.terms)
        self.tidx["$"] = self.eof
        self.prods = []
        for pr in productions:
            body = [("t", self.tidx[x]) if k == "t" else ("n", self.nidx[x]) for k, x in pr["body"]]
            self.prods.append((self.nidx[pr["head"]], body))
        self.start = self.nidx[start]
        self.action = {}
        for s, a, kind, param in action:
            self.action[(s, self.tidx[a])] = (kind, param)
        self.goto = {}
        for s, A, n in goto:
            self.goto[(s, self.nidx[A])] = n
        states = {0}
        for (s, _), (k, p) in self.action.items():
            states.add(s)
            if k == "SHIFT":
                states.add(p)
        for (s, _), n in self.goto.items():
            states.add(s)
            states.add(n)
        self.states = sorted(states)
        self.err_state = max(self.states) + 1

    def transitions(self):
        out = []
        for (s, a), (k, p) in sorted(self.action.items()):
            if k == "SHIFT":
                out.append((s, ("t", a), p))
        for (s, A), n in sorted(self.goto.items()):
            out.append((s, ("n", A), n))
        return out

    def compute_past(self):
        """Known suffix of the symbol stack per state, most recent first (greatest fixpoint by intersection)."""
        past = {0: []}
        trans = self.transitions()
        changed = True
        while changed:
            changed = False
            for s, X, s2 in trans:
                if s not in past:
                    continue
                cand = [X] + past[s]
                if s2 not in past:
                    past[s2] = cand
                    changed = True
                else:
                    cur = past[s2]
                    k = 0
                    while k < len(cur) and k < len(cand) and cur[k] == cand[k]:
                        k += 1
                    if k < len(cur):
                        past[s2] = cur[:k]
                        changed = True
        return past

    # ---- python mirror of Cfg/LR.v run (search only)
    def run(self, toks, lex_error=False, fuel=100000):
        St, i, tr = [0], 0, []
        n = len(toks)
        while fuel > 0:
            fuel -= 1
            if n <= i and lex_error:
                return tr, "lex"
            a = toks[i] if i < n else self.eof
            act = self.action.get((St[-1], a))
            if act is None:
                return tr, ("syntax", i)
            k, p = act
            if k == "SHIFT":
                St.append(p)
                tr.append(("tok", i))
                i += 1
            elif k == "REDUCE":
                head, body = self.prods[p]
                if body:
                    del St[len(St) - len(body):]
                t = St[-1] if St else 0
                St.append(self.goto.get((t, head), self.err_state))
                tr.append(("prod", p))
            elif k == "ACCEPT":
                return tr, "accept"
            else:
                return tr, ("syntax", i)
        return tr, "fuel"


def sym_term(x):
    return ("T %d" if x[0] == "t" else "NT %d") % x[1]


def table_v(T, name, prec=None, source=""):
    L = ["(* GENERATED on every run — source: %s *)" % source,
         "From Coq Require Import String List NArith.", "From Verif Require Import Cfg.LR.",
         "Import ListNotations.", "Local Open Scope N_scope.", "Local Open Scope string_scope.", ""]
    L.append("Definition %s_terminals : list string := [%s]." % (name, "; ".join(C.coq_string(t) for t in T.terms)))
    L.append("Definition %s_nonterminals : list string := [%s]." % (name, "; ".join(C.coq_string(t) for t in T.nts)))
    L.append("Definition %s_grammar : grammar := [" % name)
    L.append(";\n".join("  mkProd %d [%s]" % (h, "; ".join(sym_term(x) for x in b)) for h, b in T.prods))
    L.append("].")
    acts = []
    for (s, a), (k, p) in sorted(T.action.items()):
        if k == "SHIFT":
            acts.append("(%d, %d, Shift %d)" % (s, a, p))
        elif k == "REDUCE":
            acts.append("(%d, %d, Reduce %d)" % (s, a, p))
        elif k == "ACCEPT":
            acts.append("(%d, %d, Accept)" % (s, a))
        else:
            raise C.BuildError("unknown action kind %r" % k)
    L.append("Definition %s_table : table := {|\n  t_action := [%s];\n  t_goto := [%s]\n|}." % (
        name, "; ".join(acts), "; ".join("(%d, %d, %d)" % (s, A, n) for (s, A), n in sorted(T.goto.items()))))
    L.append("Definition %s_eof : N := %d." % (name, T.eof))
    L.append("Definition %s_err_state : N := %d." % (name, T.err_state))
    L.append("Definition %s_start : N := %d." % (name, T.start))
    L.append("Definition %s_nnt : N := %d." % (name, len(T.nts)))
    past = T.compute_past()
    L.append("(* annotation computed by the harness; it is CHECKED by safe_check, not trusted *)")
    L.append("Definition %s_past (s : N) : list symbol :=\n  match s with" % name)
    for s in sorted(past):
        L.append("  | %d => [%s]" % (s, "; ".join(sym_term(x) for x in past[s])))
    L.append("  | _ => []\n  end.")
    if prec is not None:
        L.append("(* precedence levels: associativity (0 left, 1 right, 2 none), terminal handles, production handles *)")
        rows = []
        for lv in prec:
            assoc = {"LEFT": 0, "RIGHT": 1, "NONE": 2}[lv["assoc"]]
            ts = [T.tidx[t] for t in (lv.get("terms") or [])]
            ps = []
            for pr in (lv.get("prods") or []):
                body = [("t", T.tidx[x]) if k == "t" else ("n", T.nidx[x]) for k, x in pr["body"]]
                key = (T.nidx[pr["head"]], body)
                ps.append(T.prods.index(key) if key in T.prods else 999999)
            rows.append("(%d, %s, %s)" % (assoc, C.coq_nat_list(ts), C.coq_nat_list(ps)))
        L.append("Definition %s_prec : list (N * list N * list N) := [%s]." % (name, "; ".join(rows)))
    return "\n".join(L) + "\n"


_cache = {}


def ebnf_table():
    if "T" not in _cache:
        tr = translate_table()
        _cache["tr"] = tr
        _cache["T"] = Table(tr["terminals"], tr["nonterminals"], tr["productions"], tr["start"], tr["action"], tr["goto"])
    return _cache["tr"], _cache["T"]


def regen():
    tr, T = ebnf_table()
    C.write_if_changed(os.path.join(C.GEN, "TableGo.v"),
                       table_v(T, "ebnf", tr["precedences"], "/repo/internal/ebnf/parser/parsing_table.go"))
    return tr, T


# ------------------------------------------------------------------ generators

IDENTS = ["a", "b", "expr", "term", "x1", "start", "plus", "gen1_star"]
TOKENS = ["NUM", "ID", "IF", "PLUS", "WS"]
STRINGS = ['"+"', '"*"', '"("', '")"', '"if"', '"a"', '";"']


def gen_rhs(rng, depth):
    k = rng.random()
    if depth <= 0 or k < 0.3:
        return rng.choice(IDENTS + TOKENS + STRINGS)
    if k < 0.5:
        return gen_rhs(rng, depth - 1) + " " + gen_rhs(rng, depth - 1)
    if k < 0.65:
        return gen_rhs(rng, depth - 1) + " | " + gen_rhs(rng, depth - 1)
    if k < 0.7:
        return gen_rhs(rng, depth - 1) + " |"
    op = rng.choice(["(%s)", "[%s]", "{%s}", "{{%s}}"])
    return op % gen_rhs(rng, depth - 1)


def gen_spec(rng, ndecl=None, semis=True):
    """A syntactically valid specification text (semantic validity is not required here)."""
    out = ["grammar %s%s" % (rng.choice(IDENTS), rng.choice([";", "", " ;"]))]
    n = rng.randint(0, 6) if ndecl is None else ndecl
    for _ in range(n):
        k = rng.random()
        if k < 0.25:
            val = rng.choice(STRINGS + ["/[a-z]+/", "/a|b/", "$ID", "$WS", "/\\d+/"])
            out.append("%s = %s%s" % (rng.choice(TOKENS), val, rng.choice([";", "", ";"])))
        elif k < 0.4:
            hs = []
            for _ in range(rng.randint(1, 3)):
                if rng.random() < 0.3:
                    hs.append("<%s = %s>" % (rng.choice(IDENTS), gen_rhs(rng, 1)))
                else:
                    hs.append(rng.choice(TOKENS + STRINGS))
            out.append("%s %s%s" % (rng.choice(["@left", "@right", "@none"]), " ".join(hs), rng.choice([";", "", ";"])))
        else:
            body = gen_rhs(rng, rng.randint(0, 3)) if rng.random() < 0.9 else ""
            out.append("%s = %s;" % (rng.choice(IDENTS), body))
    return rng.choice(["\n", " ", "\n\n"]).join(out) + rng.choice(["\n", "", " "])


FIXTURE_SPECS = [
    "grammar x",
    "grammar x;",
    "grammar x; a = ;",
    "grammar e; expr = expr \"+\" expr | expr \"*\" expr | \"(\" expr \")\" | NUM; NUM = /[0-9]+/; @left \"*\"; @left \"+\";",
    "grammar l; s = {a} [b] {{c}} (d | e |); a = \"a\"; b = \"b\"; c = \"c\"; d = \"d\"; e = \"e\";",
    "grammar p @left \"+\" \"-\" <e = e e> @right \"^\"; @none \"<\"\ne = e e | ID; ID = $ID",
    "grammar q; a = b | c | ; b = \"x\" b | ; c = [ c \"y\" ] ;",
]


def lex_kinds(hook, text):
    """Token kinds of a text through the real scanner (for token-level cases)."""
    r = hook.call({"op": "lex", "text": text})
    return [[t[0], t[1]] for t in r.get("tokens", [])], r.get("end")
