"""Entry point:  ./check <property> [--tier quick|thorough] [--replay FILE]   |   ./check setup"""
import argparse
import importlib
import os
import sys

sys.path.insert(0, os.path.dirname(os.path.dirname(os.path.abspath(__file__))))

from vcheck import common as C  # noqa: E402


def setup():
    C.ensure_dirs()
    C.build_tools()
    C.hook_path()
    # regenerate every translated file the development depends on, then a full .vo build
    for mod in ("c05", "regexfam", "lrfam", "clifam", "actfam"):
        m = importlib.import_module("vcheck." + mod)
        if hasattr(m, "regen"):
            m.regen()
    ok, log = C.coq_make()
    if not ok:
        print(log[-6000:])
        print("setup: coq build failed (a check will report which property this affects)")
    return 0


def main():
    ap = argparse.ArgumentParser()
    ap.add_argument("prop")
    ap.add_argument("--tier", default=os.environ.get("VERIF_TIER", "quick"))
    ap.add_argument("--replay")
    a = ap.parse_args()
    if a.prop == "setup":
        return setup()
    m = importlib.import_module("vcheck." + a.prop.lower())
    if a.replay:
        return m.replay(a.replay)
    try:
        return m.check(a.tier)
    except C.BuildError as e:
        rep = C.Report(a.prop, a.tier, "proof")
        rep.obligation("build /repo with -tags verif", False)
        rep.violation("build", {"theorem": "the hook cannot be built from /repo's working tree", "detail": str(e)[-3000:]}, no_input=True)
        return rep.finish()


if __name__ == "__main__":
    sys.exit(main())
