"""Entry point:  ./check <property> [--tier quick|thorough] [--replay FILE]   |   ./check setup"""
import argparse
import importlib
import os
import sys

sys.path.insert(0, os.path.dirname(os.path.dirname(os.path.abspath(__file__))))

from vcheck import common as C  # noqa: E402


def setup():
    C.ensure_dirs()
    C.build_tools()
    C.hook_path()
    # regenerate every translated file the development depends on, then a full .vo build
    for mod in ("c05", "regexfam", "lrfam", "clifam", "actfam", "utf8fam"):
        m = importlib.import_module("vcheck." + mod)
        if hasattr(m, "regen"):
            m.regen()
    ok, log = C.coq_make()
    if not ok:
        print(log[-6000:])
        print("setup: coq build failed (a check will report which property this affects)")
    return 0


def audit():
    """Whole-development audit: forbidden vernacular in the sources, a full build, and coqchk over every property file
    (an independent re-check of the compiled files with the list of axioms they rely on)."""
    import re
    import subprocess
    bad = []
    pat = re.compile(r"\b(Admitted|admit|Axiom|Axioms|Parameter|Parameters|Conjecture|Admit Obligations)\b|Unset Guard|bypass_check|Unset Positivity|Unset Universe Checking|type-in-type|impredicative-set")
    for root, _d, files in os.walk(os.path.join(C.COQ)):
        for f in files:
            if f.endswith(".v") or f == "_CoqProject":
                for n, line in enumerate(open(os.path.join(root, f), errors="replace"), 1):
                    code = re.sub(r"\(\*.*?\*\)", "", line)
                    if pat.search(code) and not code.lstrip().startswith("(*"):
                        bad.append("%s:%d: %s" % (os.path.join(root, f), n, line.strip()[:120]))
    print("forbidden vernacular: %d occurrence(s)" % len(bad))
    for b in bad[:20]:
        print("  " + b)
    setup()
    mods = sorted("Verif.Props." + f[:-2] for f in os.listdir(os.path.join(C.COQ, "theories", "Props")) if f.endswith(".v"))
    p = subprocess.run(["coqchk", "-silent", "-o"] + C.COQ_ARGS + mods, cwd=C.COQ, stdout=subprocess.PIPE, stderr=subprocess.STDOUT, text=True, timeout=7200)
    tail = p.stdout[p.stdout.find("CONTEXT SUMMARY"):] if "CONTEXT SUMMARY" in p.stdout else p.stdout[-3000:]
    print(tail)
    ok = p.returncode == 0 and "* Axioms: <none>" in p.stdout and not bad
    print("audit: %s" % ("ok" if ok else "FAILED"))
    return 0 if ok else 1


def main():
    ap = argparse.ArgumentParser()
    ap.add_argument("prop")
    ap.add_argument("--tier", default=os.environ.get("VERIF_TIER", "quick"))
    ap.add_argument("--replay")
    a = ap.parse_args()
    if a.prop == "setup":
        return setup()
    if a.prop == "audit":
        return audit()
    m = importlib.import_module("vcheck." + a.prop.lower())
    if a.replay:
        return m.replay(a.replay)
    try:
        return m.check(a.tier)
    except C.BuildError as e:
        rep = C.Report(a.prop, a.tier, "proof")
        rep.obligation("build /repo with -tags verif", False)
        rep.violation("build", {"theorem": "the hook cannot be built from /repo's working tree", "detail": str(e)[-3000:]}, no_input=True)
        return rep.finish()


if __name__ == "__main__":
    sys.exit(main())
