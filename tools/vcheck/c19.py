"""C19 — the compiled emitted lexer tokenises input exactly as the token automaton prescribes."""
import json
import os
import shutil
import subprocess
import tempfile

from . import common as C
from . import c08
from .lexmodel import Dfa

PROP = "C19"
HALF = 4096

DRIVER = '''package main

import (
	"encoding/json"
	"errors"
	"fmt"
	"io"
	"os"

	lx "emitted/%(pkg)s"
)

func main() {
	for _, path := range os.Args[1:] {
		f, err := os.Open(path)
		if err != nil {
			fmt.Println("open-error")
			continue
		}
		out := map[string]any{}
		toks := [][]any{}
		l, err := lx.New("f", f)
		if err != nil {
			if errors.Is(err, io.EOF) {
				out["end"] = "eof"
			} else {
				out["end"] = "error"
				out["error"] = err.Error()
			}
		} else {
			for n := 0; n < 200000; n++ {
				t, err := l.NextToken()
				if err != nil {
					if errors.Is(err, io.EOF) {
						out["end"] = "eof"
					} else {
						out["end"] = "error"
						out["error"] = err.Error()
					}
					break
				}
				toks = append(toks, []any{string(t.Terminal), t.Lexeme, t.Pos.Offset, t.Pos.Line, t.Pos.Column})
			}
		}
		out["tokens"] = toks
		b, _ := json.Marshal(out)
		fmt.Println(string(b))
		f.Close()
	}
}
'''

CASES_V = """(* GENERATED: the compiled emitted lexer vs the Coq model of its loop on the same automaton and texts *)
From Coq Require Import String List Bool Arith NArith.
From Verif Require Import Reg.Dfa Reg.MaxMunch Reg.Emitted.
From Verif Require Props.C19.
Import ListNotations.
Local Open Scope N_scope.
Local Open Scope string_scope.
Definition d : dfa := %(dfa)s.
Definition tab : etable := %(tab)s.
Definition wsq : N := %(wsq)d.
Definition end_agrees (e : ending) (o : option (option (N * N * list N))) : bool :=
  match e, o with
  | EndEOF, Some None => true
  | EndError p u, Some (Some (l, c, v)) => (p_line p =? l)%%N && (p_col p =? c)%%N && nlist_eqb u v
  | _, _ => false
  end.
Definition agrees (c : list N * list token * option (option (N * N * list N))) : bool :=
  let '(text, toks, e) := c in
  let '(mt, me) := C19.emitted_tokens (step d) (elookup tab) wsq text in
  tokens_eqb mt toks && end_agrees me e.
Definition cases : list (list N * list token * option (option (N * N * list N))) := [
%(cases)s
].
Definition M := Eval vm_compute in mismatches agrees 0 cases.
Print M.
"""

SPECS = {
    "calc": ('grammar calc;\nNUM = /[0-9]+/;\nID = $ID;\nWS = $WS;\nCOMMENT = $COMMENT;\nstart = expr;\nexpr = expr "+" expr | "(" expr ")" | NUM | ID | "if";\n@left "+";\n',
             ["12", "abc", "if", "iffy", "+", "(", ")", " ", "\n", "// c\n", "/* c */", "#x\n", "1a", "?", "é", "a+b", "(12)"]),
    "nows": ('grammar nows;\nID = /[a-z]+/;\nSTR = $STRING;\nstart = ID STR "=" ";" ;\n',
             ["abc", '"s"', '"a b"', "=", ";", " ", "\t", "\n", "\r\n", "x=y;", '"unterminated', "A", "é", "a\x0bb"]),
    "eol": ('grammar eol;\nEOL = /\\x0A/;\nWORD = /[a-z]+/;\nNUM = /[0-9]+/;\nstart = WORD NUM;\n',
            ["ab", "12", "\n", " ", "\t", "\r", "a1", "1a", "\n\n", "zz 9"]),
    "greek": ('grammar greek;\nGR = /\\p{Greek}+/;\nLO = /[a-z]+/;\nEU = /\\x20AC/;\nstart = GR LO EU;\n',
              ["αβγ", "abc", "€", " ", "α", "aα", "€€", "\n", "ж", "😀"]),
    "prefix": ('grammar prefix;\nstart = "a" "ab" "abc" "abcd" "b";\n', ["a", "ab", "abc", "abcd", "abce", "b", "abca", " ", "abcab"]),
}


def oracle(dfa, owner, text_cps):
    """Maximal munch with the emitted loop's rules: skip WS/EOL/COMMENT by name, discard unmatched whitespace, evaluate at EOF."""
    toks, p, i, n = [], (0, 1, 1), 0, len(text_cps)

    def adv(p, c):
        off, line, col = p
        return (off + 1, line + 1, 1) if c == 10 else (off + 1, line, col + 1)
    while i < n:
        q, j = dfa.start, i
        while j < n:
            t = dfa.step(q, text_cps[j])
            if t is None:
                break
            q, j = t, j + 1
        if j == i:
            c = text_cps[i]
            if c in (32, 9, 10, 13):
                p = adv(p, c)
                i += 1
                continue
            return toks, ["error", p[0], p[1], p[2], []]
        u = text_cps[i:j]
        k = owner.get(q)
        if k is None:
            return toks, ["error", p[0], p[1], p[2], u]
        if k not in ("WS", "EOL", "COMMENT"):
            toks.append([k, u, p[0], p[1], p[2]])
        for c in u:
            p = adv(p, c)
        i = j
    return toks, "eof"


def obs_of(line):
    r = json.loads(line)
    toks = [[t[0], C.codepoints(t[1]), t[2], t[3], t[4]] for t in r.get("tokens", [])]
    if r.get("end") == "eof":
        return toks, "eof"
    err = r.get("error", "")
    pre = "lexical error at f:"
    if err.startswith(pre):
        try:
            line_, col, lex = err[len(pre):].split(":", 2)
            return toks, ["error", None, int(line_), int(col), C.codepoints(lex)]
        except ValueError:
            pass
    return toks, ["other", err]


def same(a, b):
    if a[0] != b[0]:
        return False
    if isinstance(a[1], list) and isinstance(b[1], list) and a[1][0] == "error" and b[1][0] == "error":
        return a[1][2:] == b[1][2:]
    return a[1] == b[1]


def tok_term(t):
    return "(mk_tok %s %s %d %d %d)" % (C.coq_string(t[0]), C.coq_nat_list(t[1]), t[2], t[3], t[4])


def case_term(cps, obs):
    toks, end = obs
    if end == "eof":
        e = "Some (None : option (N * N * list N))"
    elif isinstance(end, list) and end[0] == "error":
        e = "Some (Some (%d, %d, %s))" % (end[2], end[3], C.coq_nat_list(end[4]))
    else:
        e = "None"
    return "(%s, [%s], %s)" % (C.coq_nat_list(cps), "; ".join(tok_term(t) for t in toks), e)


def check(tier):
    rep = C.Report(PROP, tier, "proof")
    rng = C.rng_for(PROP)
    ok, log = C.coq_make(["theories/Props/C19.vo"])
    for t in ["emitted_stream", "emitted_stream_unique", "emitted_reader_exact", "emitted_reader_with_retract_exact"]:
        rep.obligation("Props/C19.v: " + t, ok)
    rep.cov["partial"] = ["the reader theorems are at byte level: UTF-8 decoding of the emitted Next() (a character = up to 4 calls of next()) is "
                          "exercised by the runs, not modelled",
                          "the model of the repaired reader is tied to the template by the compile-and-run sweep, not by a translator"]
    C.build_tools()
    exe = c08.emerge_binary()
    scratch = tempfile.mkdtemp(prefix="verif-c19-")
    total_inputs, total_pads = 0, 0
    dist = {"packages": 0, "inputs": 0, "paddings": 0, "error_endings": 0, "multibyte_inputs": 0}
    try:
        mod = os.path.join(scratch, "mod")
        os.makedirs(mod)
        with open(os.path.join(mod, "go.mod"), "w") as f:
            f.write("module emitted\n\ngo 1.23\n")
        for name, (spec, frags) in SPECS.items():
            dump = C.hook_batch([{"op": "spec_dfa", "text": spec}])[0]
            if dump.get("outcome") != "ok" or "dfa" not in dump:
                rep.failure("spec", {"spec"}, {"input_text": spec, "why": "fixture specification not accepted: %r" % dump.get("error", dump.get("dfa_error"))})
                continue
            src = os.path.join(scratch, name + ".grammar")
            with open(src, "w") as f:
                f.write(spec)
            p = C.run([exe, "-out", mod, src], timeout=120)
            pkg = os.path.join(mod, name)
            if p.returncode != 0 or not os.path.isdir(pkg):
                rep.failure("generate", {"generate"}, {"input_text": spec, "why": (p.stdout + p.stderr)[-400:]})
                continue
            os.makedirs(os.path.join(mod, "cmd_" + name))
            with open(os.path.join(mod, "cmd_" + name, "main.go"), "w") as f:
                f.write(DRIVER % {"pkg": name})
            drv = os.path.join(scratch, "drv_" + name)
            b = C.run(["go", "build", "-o", drv, "./cmd_" + name], cwd=mod, env=C.go_env_local(), timeout=300)
            if b.returncode != 0:
                rep.failure("compile", {"compile"}, {"input_text": spec, "why": "the emitted package does not compile: " + b.stderr[-600:]})
                continue
            dist["packages"] += 1
            dfa = Dfa(dump["dfa"]["start"], dump["dfa"]["trans"])
            owner = {q: t for t, qs in dump["term_map"].items() for q in qs}
            # inputs: every fragment alone, pairs, random compositions, with and without a final newline
            texts, ptexts_long = [], []
            for a in frags:
                texts += [a, a + "\n", " " + a]
                for b_ in frags[:6]:
                    texts.append(a + b_)
                    texts.append(a + " " + b_)
            for _ in range(60 if tier == "quick" else 1500):
                texts.append("".join(rng.choice(frags) + rng.choice(["", " ", "\n", "  "]) for _ in range(rng.randint(1, 10))))
            # paddings that move tokens across both boundaries of the emitted reader
            base = "".join(f_ + " " for f_ in frags if "\n" not in f_ and not f_.startswith("\"unterminated"))[:200]
            pads = (list(range(HALF - 12, HALF + 6)) + list(range(2 * HALF - 12, 2 * HALF + 6)) + [0, 1, 3 * HALF - 2, 3 * HALF + 1]) if tier == "quick" \
                else sorted(set(list(range(0, 2 * HALF + 65, 41)) + list(range(HALF - 70, HALF + 20)) + list(range(2 * HALF - 70, 2 * HALF + 20)) + list(range(3 * HALF - 20, 3 * HALF + 8))))
            padder = frags[0] + " "
            # tokens written back to back: the look-ahead character that ends a lexeme is then the first character of the next
            # token, multi-byte ones included, and the sweep puts each of its bytes on the boundary
            solid = [f_ for f_ in frags if f_.strip() == f_ and f_ and "\n" not in f_ and not f_.startswith("\"unterminated") and not f_.startswith("//") and not f_.startswith("#")]
            base2 = "".join(solid) + "".join(reversed(solid))
            ptexts = []
            for k in pads:
                reps, rem = divmod(k, len(padder))
                ptexts.append(padder * reps + " " * rem + base)
                ptexts.append(" " * k + base.rstrip())
                ptexts.append(" " * k + base2)
                ptexts.append(" " * k + base2 + "\n")
            # long lexemes: the reader's stacks grow in chunks and a lexeme may span both halves
            longs = [f_ for f_ in frags if len(f_) == 1 and dfa.step(dfa.start, ord(f_)) is not None
                     and dfa.step(dfa.step(dfa.start, ord(f_)), ord(f_)) == dfa.step(dfa.start, ord(f_))][:2]
            for ch in longs:
                for ln in ([1000, HALF - 1, HALF, HALF + 1, 2 * HALF - 2] if tier == "quick" else list(range(HALF - 3, HALF + 3)) + list(range(2 * HALF - 6, 2 * HALF + 3)) + [1000, 3 * HALF, 20000]):
                    ptexts_long.append(ch * ln + " " + ch)
                    ptexts_long.append(" " * 7 + ch * ln)
            texts = list(dict.fromkeys(t for t in texts if "\x00" not in t))
            # total lengths that are exact multiples of the half size (the end of input falls on a boundary)
            for L in (HALF, 2 * HALF, 3 * HALF):
                for d_ in (-1, 0, 1):
                    fill = (padder * (L // len(padder) + 1))
                    ptexts.append(fill[:L + d_])
                    ptexts.append(fill[:L + d_ - 1] + " ")
                    ptexts.append(" " * (L + d_ - len(frags[0])) + frags[0])
            ptexts += ptexts_long
            all_texts = texts + ptexts
            files = []
            for idx, t in enumerate(all_texts):
                pth = os.path.join(scratch, "in_%s_%d.txt" % (name, idx))
                with open(pth, "wb") as f:
                    f.write(t.encode("utf-8"))
                files.append(pth)
            outs = []
            for o in range(0, len(files), 200):
                try:
                    pr = subprocess.run([drv] + files[o:o + 200], stdout=subprocess.PIPE, stderr=subprocess.PIPE, text=True, timeout=120)
                    lines = pr.stdout.strip().split("\n") if pr.stdout.strip() else []
                except subprocess.TimeoutExpired:
                    lines = []
                if len(lines) != len(files[o:o + 200]):
                    # find the input that crashes or hangs the compiled lexer
                    for fpath, t in zip(files[o:o + 200], all_texts[o:o + 200]):
                        try:
                            pr1 = subprocess.run([drv, fpath], stdout=subprocess.PIPE, stderr=subprocess.PIPE, text=True, timeout=10)
                            if pr1.returncode != 0 or not pr1.stdout.strip():
                                rep.failure("crash", {"crash"}, {"specification": spec, "input_text": t[-300:], "input_length": len(t),
                                                                 "why": "the compiled lexer crashed: " + pr1.stderr[-300:]})
                                break
                        except subprocess.TimeoutExpired:
                            rep.failure("hang", {"hang"}, {"specification": spec, "input_text": t[-300:], "input_length": len(t),
                                                           "why": "the compiled lexer does not terminate on this input"})
                            break
                    lines = lines + ["{}"] * (len(files[o:o + 200]) - len(lines))
                outs.extend(lines)
            for pth in files:
                os.unlink(pth)
            bad, cases = [], []
            for t, line in zip(all_texts, outs):
                if line == "{}":
                    continue
                cps = C.codepoints(t)
                o_ = obs_of(line)
                exp = oracle(dfa, owner, cps)
                if not same(o_, exp):
                    bad.append((t, o_, exp))
                if len(cps) <= 400:
                    cases.append((cps, o_))
                if isinstance(o_[1], list):
                    dist["error_endings"] += 1
                if any(c > 127 for c in cps):
                    dist["multibyte_inputs"] += 1
            dist["inputs"] += len(texts)
            dist["paddings"] += len(ptexts)
            # Coq model of the loop on the same automaton and the same (short) texts
            wsq = max(dfa.states()) + 1
            tab = "[%s]" % "; ".join("(%d, %s)" % (q, C.coq_string(k)) for q, k in sorted(owner.items()) if all(32 <= ord(ch) < 127 for ch in k))
            path = os.path.join(C.GEN, "cases_C19_%s.v" % name)
            with open(path, "w") as f:
                f.write(CASES_V % {"dfa": c08.dfa_term(dump["dfa"]["trans"], dump["dfa"]["start"]), "tab": tab, "wsq": wsq,
                                   "cases": ";\n".join(case_term(c, o_) for c, o_ in cases[:600])})
            okc, out = C.coqc_file(path, timeout=600)
            m = C.parse_mismatches(out) if okc else None
            rep.obligation("%s: compiled lexer == Coq model of the loop on %d texts" % (name, min(len(cases), 600)), m is not None and not m)
            rep.obligation("%s: compiled lexer == maximal-munch oracle on %d inputs + %d paddings" % (name, len(texts), len(ptexts)), not bad)
            if m is None and ok:
                rep.violation("cases", {"theorem": "gen/cases_C19_%s.v does not compile" % name, "log": out[-2000:]}, no_input=True)
            elif m:
                c0 = cases[m[0]]
                rep.failure("model", {"model"}, {"specification": spec, "input_text": "".join(chr(c) for c in c0[0]), "observed": c0[1]})
            kinds = set()
            for t, o_, exp in sorted(bad, key=lambda x: len(x[0])):
                kind = ("ending" if o_[0] == exp[0] else "tokens")
                if kind in kinds:
                    continue
                kinds.add(kind)
                rep.failure("stream", {"stream"}, {"specification": spec, "input_text": t if len(t) < 400 else None, "input_length": len(t),
                                                   "input_tail": t[-120:], "observed": [o_[0][-3:], o_[1]], "expected": [exp[0][-3:], exp[1]]})
    finally:
        shutil.rmtree(scratch, ignore_errors=True)
    rep.cov["evaluations"] = dist["inputs"] + dist["paddings"]
    rep.cov["distinct_nontrivial"] = dist["inputs"]
    rep.cov["rule"] = ("five specifications (skipped WS/COMMENT terminals, no whitespace terminal at all, an EOL terminal, non-ASCII classes, prefix chains) "
                       "are generated, compiled with a driver and run on: every fragment alone / in pairs / with and without a final newline, random "
                       "compositions, and paddings that move tokens across both 4096-byte boundaries of the emitted reader (every amount within 70 bytes of each boundary plus every 41st amount up to 2*4096+64 in "
                       "the thorough tier); output compared with the Coq model of the loop and with a maximal-munch oracle on the dumped automaton")
    rep.cov["input_distribution"] = dist
    rep.cov["samples"] = [{"specification": s[0][:80]} for s in list(SPECS.values())[:2]]
    if not ok and not rep.violations:
        rep.violation("proof", {"theorem": "Props/C19.v", "log": log[-2500:]}, no_input=True)
    return rep.finish()


def replay(path):
    d = json.load(open(path))
    print(json.dumps({k: d[k] for k in d if k != "log"}, indent=1)[:2000])
    return 1
