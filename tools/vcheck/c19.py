"""C19 — the compiled emitted lexer tokenises input exactly as the token automaton prescribes."""
import json
import os
import shutil
import subprocess
import tempfile

from . import common as C
from . import utf8fam as U
from . import c08
from .lexmodel import Dfa

PROP = "C19"
HALF = 4096

DRIVER = '''package main

import (
	"encoding/json"
	"errors"
	"fmt"
	"io"
	"os"

	lx "emitted/%(pkg)s"
)

func main() {
	for _, path := range os.Args[1:] {
		f, err := os.Open(path)
		if err != nil {
			fmt.Println("open-error")
			continue
		}
		out := map[string]any{}
		toks := [][]any{}
		l, err := lx.New("f", f)
		if err != nil {
			if errors.Is(err, io.EOF) {
				out["end"] = "eof"
			} else {
				out["end"] = "error"
				out["error"] = err.Error()
			}
		} else {
			for n := 0; n < 200000; n++ {
				t, err := l.NextToken()
				if err != nil {
					if errors.Is(err, io.EOF) {
						out["end"] = "eof"
					} else {
						out["end"] = "error"
						out["error"] = err.Error()
					}
					break
				}
				toks = append(toks, []any{string(t.Terminal), t.Lexeme, t.Pos.Offset, t.Pos.Line, t.Pos.Column})
			}
		}
		out["tokens"] = toks
		b, _ := json.Marshal(out)
		fmt.Println(string(b))
		f.Close()
	}
}
'''

PROBE_GO = '''package %(pkg)s

import (
	"bytes"
	"errors"
	"io"
)

// VerifDecodeAll (added by the verification harness to the scratch copy of the emitted package) reads characters with the
// emitted reader until it fails: the code points, the column counter after each, and how it ended.
func VerifDecodeAll(bs []byte, half int) ([]int32, []int, string) {
	in, err := newInput("p", bytes.NewReader(bs), half)
	if err != nil {
		if errors.Is(err, io.EOF) {
			return nil, nil, "eof"
		}
		return nil, nil, "error"
	}
	var rs []int32
	var cols []int
	for n := 0; n < 100000; n++ {
		r, err := in.Next()
		if err != nil {
			if errors.Is(err, io.EOF) {
				return rs, cols, "eof"
			}
			var ie *InputError
			if errors.As(err, &ie) {
				return rs, cols, "invalid"
			}
			return rs, cols, "error"
		}
		rs = append(rs, int32(r))
		cols = append(cols, in.nextColumn)
	}
	return rs, cols, "loop"
}
'''

PROBE_MAIN = '''package main

import (
	"bufio"
	"encoding/hex"
	"encoding/json"
	"fmt"
	"os"

	lx "emitted/%(pkg)s"
)

func main() {
	sc := bufio.NewScanner(os.Stdin)
	sc.Buffer(make([]byte, 1<<20), 1<<20)
	for sc.Scan() {
		bs, _ := hex.DecodeString(sc.Text())
		rs, cols, end := lx.VerifDecodeAll(bs, 4096)
		b, _ := json.Marshal(map[string]any{"runes": rs, "cols": cols, "end": end})
		fmt.Println(string(b))
	}
}
'''

PROBE_V = """(* GENERATED: the emitted reader's Next on probe byte strings vs the Coq decoder model (Reg/Utf8.v) on the translated tables *)
From Coq Require Import List Bool Arith NArith.
From Verif Require Import Reg.Utf8 Reg.MaxMunch.
From VerifGen Require Import Utf8Go.
Import ListNotations.
Local Open Scope N_scope.
Definition dec := decode u_first u_accept u_xx u_as u_locb u_hicb u_maskx u_mask2 u_mask3 u_mask4.
(* characters until the decoder stops, and why it stops: 0 end of input, 1 invalid *)
Fixpoint run (fuel : nat) (bs : list N) : list N * N :=
  match fuel with
  | O => ([], 2)
  | S f => match dec bs with
           | DOk c n => let '(cs, e) := run f (skipn n bs) in (c :: cs, e)
           | DEof => ([], 0)
           | DInvalid => ([], 1)
           end
  end.
Fixpoint nl_eqb (a b : list N) : bool :=
  match a, b with [], [] => true | x :: a', y :: b' => (x =? y) && nl_eqb a' b' | _, _ => false end.
Definition agrees (c : list N * list N * N) : bool :=
  let '(bs, cs, e) := c in
  let '(ms, me) := run (S (length bs)) bs in nl_eqb ms cs && (me =? e).
Definition cases : list (list N * list N * N) := [
%s
].
Definition M := Eval vm_compute in mismatches agrees 0 cases.
Print M.
"""


def utf8_probes(rng, tier):
    """Byte strings without NUL (the reader's end marker): valid encodings at every length boundary, every kind of malformed
    sequence, truncations at the end of the input, random bytes."""
    def enc(c):
        return list(chr(c).encode("utf-8"))
    probes = []
    edges = [1, 0x7F, 0x80, 0x7FF, 0x800, 0xFFF, 0x1000, 0xD7FF, 0xE000, 0xFFFD, 0xFFFF, 0x10000, 0x3FFFF, 0x40000, 0xFFFFF, 0x100000, 0x10FFFF,
             0xE9, 0x20AC, 0x1F600, 10, 13, 9, 32]
    for c in edges:
        probes.append(enc(c))
        probes.append([0x61] + enc(c) + [0x62])
        for cut in range(1, len(enc(c))):
            probes.append(enc(c)[:cut])                      # truncated at the end of the input
            probes.append(enc(c)[:cut] + [0x41])             # a continuation byte replaced by a letter
    bad = [[0x80], [0xBF], [0xC0, 0x80], [0xC1, 0xBF], [0xE0, 0x80, 0x80], [0xE0, 0x9F, 0xBF], [0xED, 0xA0, 0x80], [0xED, 0xBF, 0xBF],
           [0xF0, 0x80, 0x80, 0x80], [0xF0, 0x8F, 0xBF, 0xBF], [0xF4, 0x90, 0x80, 0x80], [0xF5, 0x80, 0x80, 0x80], [0xFE], [0xFF],
           [0xE2, 0x28, 0xA1], [0xE2, 0x82, 0x28], [0xF0, 0x28, 0x8C, 0xBC], [0xF0, 0x90, 0x28, 0xBC], [0xF0, 0x90, 0x8C, 0x28],
           [0xC2], [0xE2, 0x82], [0xF0, 0x9F, 0x98]]
    for b in bad:
        probes.append(b)
        probes.append([0x78] + b + [0x79])
    for lead in range(0x80, 0x100):                          # every non-ASCII lead byte with the extreme second bytes
        for b1 in (0x7F, 0x80, 0x8F, 0x90, 0x9F, 0xA0, 0xBF, 0xC0):
            probes.append([lead, b1, 0x80, 0x80])
    for _ in range(300 if tier == "quick" else 6000):
        k = rng.random()
        if k < 0.5:
            cps = [rng.choice([rng.randint(1, 0x7F), rng.randint(0x80, 0x7FF), rng.randint(0x800, 0xD7FF), rng.randint(0xE000, 0xFFFF),
                               rng.randint(0x10000, 0x10FFFF)]) for _ in range(rng.randint(1, 8))]
            probes.append([b for c in cps for b in enc(c)])
        elif k < 0.8:
            bs = [b for c in [rng.randint(0x80, 0x10FFFF) for _ in range(3)] if not 0xD800 <= c <= 0xDFFF for b in enc(c)]
            if bs:
                i = rng.randrange(len(bs))
                bs[i] = rng.randint(1, 255)
                probes.append(bs)
        else:
            probes.append([rng.randint(1, 255) for _ in range(rng.randint(1, 6))])
    return [p_ for p_ in probes if p_ and 0 not in p_]


def probe_reader(rep, mod, scratch, name, rng, tier):
    """Compile the probe into the scratch copy of package `name`, run it, compare with the Coq decoder on the translated tables."""
    with open(os.path.join(mod, name, "zz_verif_probe.go"), "w") as f:
        f.write(PROBE_GO % {"pkg": name})
    os.makedirs(os.path.join(mod, "cmd_probe"))
    with open(os.path.join(mod, "cmd_probe", "main.go"), "w") as f:
        f.write(PROBE_MAIN % {"pkg": name})
    drv = os.path.join(scratch, "drv_probe")
    b = C.run(["go", "build", "-o", drv, "./cmd_probe"], cwd=mod, env=C.go_env_local(), timeout=300)
    if b.returncode != 0:
        rep.obligation("UTF-8 probe of the emitted reader compiles", False)
        rep.violation("probe", {"theorem": "the probe of the emitted reader (newInput / Next / InputError / nextColumn) does not compile",
                                "log": b.stderr[-1200:]}, no_input=True)
        return
    probes = utf8_probes(rng, tier)
    pr = subprocess.run([drv], input="\n".join(bytes(p_).hex() for p_ in probes) + "\n", stdout=subprocess.PIPE, stderr=subprocess.PIPE,
                        text=True, timeout=300)
    lines = pr.stdout.strip().split("\n") if pr.stdout.strip() else []
    if len(lines) != len(probes):
        i = len(lines)
        rep.obligation("UTF-8 probe of the emitted reader runs", False)
        rep.failure("probe-crash", {"probe-crash"}, {"input_bytes_hex": bytes(probes[min(i, len(probes) - 1)]).hex(),
                                                     "why": "the emitted reader crashed while decoding: " + pr.stderr[-400:]})
        return
    cases, colbad = [], []
    endcode = {"eof": 0, "invalid": 1}
    for p_, line in zip(probes, lines):
        o = json.loads(line)
        rs = o.get("runes") or []
        cases.append((p_, rs, endcode.get(o.get("end"), 9)))
        col, exp = 1, []
        for r in rs:
            col = 1 if r == 10 else col + 1
            exp.append(col)
        if exp != (o.get("cols") or []):
            colbad.append((p_, o))
    paths = []
    for o in range(0, len(cases), 400):
        path = os.path.join(C.GEN, "cases_C19_utf8_%d.v" % (o // 400))
        with open(path, "w") as f:
            f.write(PROBE_V % ";\n".join("(%s, %s, %d)" % (C.coq_nat_list(p_), C.coq_nat_list(rs), e) for p_, rs, e in cases[o:o + 400]))
        paths.append(path)
    badidx, cerr = [], None
    for k, (okc, out) in enumerate(C.coqc_many(paths)):
        m = C.parse_mismatches(out) if okc else None
        if m is None:
            cerr = out[-1500:]
            break
        badidx.extend(400 * k + x for x in m)
    rep.cov["utf8_probes"] = {"byte_strings": len(probes), "ended_invalid": sum(1 for c in cases if c[2] == 1),
                              "ended_at_end_of_input": sum(1 for c in cases if c[2] == 0), "characters": sum(len(c[1]) for c in cases)}
    rep.obligation("emitted reader's Next == Coq decoder (translated tables) on %d byte strings: characters, malformed sequences, truncations"
                   % len(probes), cerr is None and not badidx)
    rep.obligation("the column counter advances by one per character of any length and restarts after a line feed (%d byte strings)" % len(probes),
                   not colbad)
    if cerr is not None:
        rep.violation("cases", {"theorem": "gen/cases_C19_utf8_*.v does not compile", "log": cerr}, no_input=True)
    for i in badidx[:2]:
        rep.failure("utf8", {"utf8"}, {"input_bytes_hex": bytes(cases[i][0]).hex(), "observed_characters": cases[i][1],
                                       "observed_end": {0: "end of input", 1: "invalid"}.get(cases[i][2], "other"),
                                       "why": "the emitted reader and the decoder model disagree on this byte string"})
    for p_, o in colbad[:2]:
        rep.failure("column", {"column"}, {"input_bytes_hex": bytes(p_).hex(), "observed": o})


CASES_V = """(* GENERATED: the compiled emitted lexer vs the Coq model of its loop on the same automaton and texts *)
From Coq Require Import String List Bool Arith NArith.
From Verif Require Import Reg.Dfa Reg.MaxMunch Reg.Emitted.
From Verif Require Props.C19.
Import ListNotations.
Local Open Scope N_scope.
Local Open Scope string_scope.
Definition d : dfa := %(dfa)s.
Definition tab : etable := %(tab)s.
Definition wsq : N := %(wsq)d.
Definition end_agrees (e : ending) (o : option (option (N * N * list N))) : bool :=
  match e, o with
  | EndEOF, Some None => true
  | EndError p u, Some (Some (l, c, v)) => (p_line p =? l)%%N && (p_col p =? c)%%N && nlist_eqb u v
  | _, _ => false
  end.
Definition agrees (c : list N * list token * option (option (N * N * list N))) : bool :=
  let '(text, toks, e) := c in
  let '(mt, me) := C19.emitted_tokens (step d) (elookup tab) wsq text in
  tokens_eqb mt toks && end_agrees me e.
Definition cases : list (list N * list token * option (option (N * N * list N))) := [
%(cases)s
].
Definition M := Eval vm_compute in mismatches agrees 0 cases.
Print M.
"""

SPECS = {
    "calc": ('grammar calc;\nNUM = /[0-9]+/;\nID = $ID;\nWS = $WS;\nCOMMENT = $COMMENT;\nstart = expr;\nexpr = expr "+" expr | "(" expr ")" | NUM | ID | "if";\n@left "+";\n',
             ["12", "abc", "if", "iffy", "+", "(", ")", " ", "\n", "// c\n", "/* c */", "#x\n", "1a", "?", "é", "a+b", "(12)"]),
    "nows": ('grammar nows;\nID = /[a-z]+/;\nSTR = $STRING;\nstart = ID STR "=" ";" ;\n',
             ["abc", '"s"', '"a b"', "=", ";", " ", "\t", "\n", "\r\n", "x=y;", '"unterminated', "A", "é", "a\x0bb"]),
    "eol": ('grammar eol;\nEOL = /\\x0A/;\nWORD = /[a-z]+/;\nNUM = /[0-9]+/;\nstart = WORD NUM;\n',
            ["ab", "12", "\n", " ", "\t", "\r", "a1", "1a", "\n\n", "zz 9"]),
    # a line feed that is a REPORTED token (not named WS / EOL / COMMENT): read as look-ahead after a token and handed back,
    # its own position must be the one before it was read
    "nl": ('grammar nl;\nNL = /\\x0A/;\nWORD = /[a-z]+/;\nNUM = /[0-9]+/;\nCRLF = /\\x0D\\x0A/;\nstart = WORD NUM NL CRLF;\n',
           ["ab", "12", "\n", " ", "ab\n", "\n\n", "a1\n", "\r\n", "ab\r\n", "\t", "1\n2\n"]),
    "greek": ('grammar greek;\nGR = /\\p{Greek}+/;\nLO = /[a-z]+/;\nEU = /\\x20AC/;\nstart = GR LO EU;\n',
              ["αβγ", "abc", "€", " ", "α", "aα", "€€", "\n", "ж", "😀"]),
    "prefix": ('grammar prefix;\nstart = "a" "ab" "abc" "abcd" "b";\n', ["a", "ab", "abc", "abcd", "abce", "b", "abca", " ", "abcab"]),
}


def oracle(dfa, owner, text_cps):
    """Maximal munch with the emitted loop's rules: skip WS/EOL/COMMENT by name, discard unmatched whitespace, evaluate at EOF."""
    toks, p, i, n = [], (0, 1, 1), 0, len(text_cps)

    def adv(p, c):
        off, line, col = p
        return (off + 1, line + 1, 1) if c == 10 else (off + 1, line, col + 1)
    while i < n:
        q, j = dfa.start, i
        while j < n:
            t = dfa.step(q, text_cps[j])
            if t is None:
                break
            q, j = t, j + 1
        if j == i:
            c = text_cps[i]
            if c in (32, 9, 10, 13):
                p = adv(p, c)
                i += 1
                continue
            return toks, ["error", p[0], p[1], p[2], []]
        u = text_cps[i:j]
        k = owner.get(q)
        if k is None:
            return toks, ["error", p[0], p[1], p[2], u]
        if k not in ("WS", "EOL", "COMMENT"):
            toks.append([k, u, p[0], p[1], p[2]])
        for c in u:
            p = adv(p, c)
        i = j
    return toks, "eof"


def obs_of(line):
    r = json.loads(line)
    toks = [[t[0], C.codepoints(t[1]), t[2], t[3], t[4]] for t in r.get("tokens", [])]
    if r.get("end") == "eof":
        return toks, "eof"
    err = r.get("error", "")
    pre = "lexical error at f:"
    if err.startswith(pre):
        try:
            line_, col, lex = err[len(pre):].split(":", 2)
            return toks, ["error", None, int(line_), int(col), C.codepoints(lex)]
        except ValueError:
            pass
    return toks, ["other", err]


def same(a, b):
    if a[0] != b[0]:
        return False
    if isinstance(a[1], list) and isinstance(b[1], list) and a[1][0] == "error" and b[1][0] == "error":
        return a[1][2:] == b[1][2:]
    return a[1] == b[1]


def tok_term(t):
    return "(mk_tok %s %s %d %d %d)" % (C.coq_string(t[0]), C.coq_nat_list(t[1]), t[2], t[3], t[4])


def case_term(cps, obs):
    toks, end = obs
    if end == "eof":
        e = "Some (None : option (N * N * list N))"
    elif isinstance(end, list) and end[0] == "error":
        e = "Some (Some (%d, %d, %s))" % (end[2], end[3], C.coq_nat_list(end[4]))
    else:
        e = "None"
    return "(%s, [%s], %s)" % (C.coq_nat_list(cps), "; ".join(tok_term(t) for t in toks), e)


def check(tier):
    rep = C.Report(PROP, tier, "proof")
    rng = C.rng_for(PROP)
    try:
        U.regen()
        uok = True
    except C.BuildError as e:
        uok = False
        rep.obligation("translate the UTF-8 tables of input.go.tmpl", False)
        rep.violation("translator", {"theorem": "gen/Utf8Go.v cannot be regenerated", "detail": str(e)}, no_input=True)
    ok, log = C.coq_make(["theories/Props/C19.vo"])
    for t in ["emitted_stream", "emitted_stream_unique", "emitted_reader_exact", "emitted_reader_with_retract_exact",
              "every_character_is_decoded (all 1,112,064 scalar values, checked by the kernel)", "every_text_is_read_back"]:
        rep.obligation("Props/C19.v: " + t, ok)
    rep.cov["partial"] = ["the decoder theorem covers every VALID encoding (all inputs the property quantifies over); what the reader does with "
                          "malformed bytes is compared with the model per probe, not characterised by a theorem",
                          "the model of the repaired reader is tied to the template by the compile-and-run sweep, not by a translator"]
    C.build_tools()
    exe = c08.emerge_binary()
    scratch = tempfile.mkdtemp(prefix="verif-c19-")
    total_inputs, total_pads = 0, 0
    dist = {"packages": 0, "inputs": 0, "paddings": 0, "error_endings": 0, "multibyte_inputs": 0}
    try:
        mod = os.path.join(scratch, "mod")
        os.makedirs(mod)
        with open(os.path.join(mod, "go.mod"), "w") as f:
            f.write("module emitted\n\ngo 1.23\n")
        for name, (spec, frags) in SPECS.items():
            dump = C.hook_batch([{"op": "spec_dfa", "text": spec}])[0]
            if dump.get("outcome") != "ok" or "dfa" not in dump:
                rep.failure("spec", {"spec"}, {"input_text": spec, "why": "fixture specification not accepted: %r" % dump.get("error", dump.get("dfa_error"))})
                continue
            src = os.path.join(scratch, name + ".grammar")
            with open(src, "w") as f:
                f.write(spec)
            p = C.run([exe, "-out", mod, src], timeout=120)
            pkg = os.path.join(mod, name)
            if p.returncode != 0 or not os.path.isdir(pkg):
                rep.failure("generate", {"generate"}, {"input_text": spec, "why": (p.stdout + p.stderr)[-400:]})
                continue
            os.makedirs(os.path.join(mod, "cmd_" + name))
            with open(os.path.join(mod, "cmd_" + name, "main.go"), "w") as f:
                f.write(DRIVER % {"pkg": name})
            drv = os.path.join(scratch, "drv_" + name)
            b = C.run(["go", "build", "-o", drv, "./cmd_" + name], cwd=mod, env=C.go_env_local(), timeout=300)
            if b.returncode != 0:
                rep.failure("compile", {"compile"}, {"input_text": spec, "why": "the emitted package does not compile: " + b.stderr[-600:]})
                continue
            dist["packages"] += 1
            if dist["packages"] == 1 and uok:
                probe_reader(rep, mod, scratch, name, rng, tier)
            dfa = Dfa(dump["dfa"]["start"], dump["dfa"]["trans"])
            owner = {q: t for t, qs in dump["term_map"].items() for q in qs}
            # inputs: every fragment alone, pairs, random compositions, with and without a final newline
            texts, ptexts_long = [], []
            for a in frags:
                texts += [a, a + "\n", " " + a]
                for b_ in frags[:6]:
                    texts.append(a + b_)
                    texts.append(a + " " + b_)
            for _ in range(60 if tier == "quick" else 1500):
                texts.append("".join(rng.choice(frags) + rng.choice(["", " ", "\n", "  "]) for _ in range(rng.randint(1, 10))))
            # paddings that move tokens across both boundaries of the emitted reader
            base = "".join(f_ + " " for f_ in frags if "\n" not in f_ and not f_.startswith("\"unterminated"))[:200]
            pads = (list(range(HALF - 12, HALF + 6)) + list(range(2 * HALF - 12, 2 * HALF + 6)) + [0, 1, 3 * HALF - 2, 3 * HALF + 1]) if tier == "quick" \
                else sorted(set(list(range(0, 2 * HALF + 65, 41)) + list(range(HALF - 70, HALF + 20)) + list(range(2 * HALF - 70, 2 * HALF + 20)) + list(range(3 * HALF - 20, 3 * HALF + 8))))
            padder = frags[0] + " "
            # tokens written back to back: the look-ahead character that ends a lexeme is then the first character of the next
            # token, multi-byte ones included, and the sweep puts each of its bytes on the boundary
            solid = [f_ for f_ in frags if f_.strip() == f_ and f_ and "\n" not in f_ and not f_.startswith("\"unterminated") and not f_.startswith("//") and not f_.startswith("#")]
            base2 = "".join(solid) + "".join(reversed(solid))
            ptexts = []
            for k in pads:
                reps, rem = divmod(k, len(padder))
                ptexts.append(padder * reps + " " * rem + base)
                ptexts.append(" " * k + base.rstrip())
                ptexts.append(" " * k + base2)
                ptexts.append(" " * k + base2 + "\n")
            # long lexemes: the reader's stacks grow in chunks and a lexeme may span both halves
            longs = [f_ for f_ in frags if len(f_) == 1 and dfa.step(dfa.start, ord(f_)) is not None
                     and dfa.step(dfa.step(dfa.start, ord(f_)), ord(f_)) == dfa.step(dfa.start, ord(f_))][:2]
            for ch in longs:
                for ln in ([1000, HALF - 1, HALF, HALF + 1, 2 * HALF - 2] if tier == "quick" else list(range(HALF - 3, HALF + 3)) + list(range(2 * HALF - 6, 2 * HALF + 3)) + [1000, 3 * HALF, 20000]):
                    ptexts_long.append(ch * ln + " " + ch)
                    ptexts_long.append(" " * 7 + ch * ln)
            texts = list(dict.fromkeys(t for t in texts if "\x00" not in t))
            # total lengths that are exact multiples of the half size (the end of input falls on a boundary)
            for L in (HALF, 2 * HALF, 3 * HALF):
                for d_ in (-1, 0, 1):
                    fill = (padder * (L // len(padder) + 1))
                    ptexts.append(fill[:L + d_])
                    ptexts.append(fill[:L + d_ - 1] + " ")
                    ptexts.append(" " * (L + d_ - len(frags[0])) + frags[0])
            ptexts += ptexts_long
            all_texts = texts + ptexts
            files = []
            for idx, t in enumerate(all_texts):
                pth = os.path.join(scratch, "in_%s_%d.txt" % (name, idx))
                with open(pth, "wb") as f:
                    f.write(t.encode("utf-8"))
                files.append(pth)
            outs = []
            for o in range(0, len(files), 200):
                try:
                    pr = subprocess.run([drv] + files[o:o + 200], stdout=subprocess.PIPE, stderr=subprocess.PIPE, text=True, timeout=120)
                    lines = pr.stdout.strip().split("\n") if pr.stdout.strip() else []
                except subprocess.TimeoutExpired:
                    lines = []
                if len(lines) != len(files[o:o + 200]):
                    # find the input that crashes or hangs the compiled lexer
                    for fpath, t in zip(files[o:o + 200], all_texts[o:o + 200]):
                        try:
                            pr1 = subprocess.run([drv, fpath], stdout=subprocess.PIPE, stderr=subprocess.PIPE, text=True, timeout=10)
                            if pr1.returncode != 0 or not pr1.stdout.strip():
                                rep.failure("crash", {"crash"}, {"specification": spec, "input_text": t[-300:], "input_length": len(t),
                                                                 "why": "the compiled lexer crashed: " + pr1.stderr[-300:]})
                                break
                        except subprocess.TimeoutExpired:
                            rep.failure("hang", {"hang"}, {"specification": spec, "input_text": t[-300:], "input_length": len(t),
                                                           "why": "the compiled lexer does not terminate on this input"})
                            break
                    lines = lines + ["{}"] * (len(files[o:o + 200]) - len(lines))
                outs.extend(lines)
            for pth in files:
                os.unlink(pth)
            bad, cases = [], []
            for t, line in zip(all_texts, outs):
                if line == "{}":
                    continue
                cps = C.codepoints(t)
                o_ = obs_of(line)
                exp = oracle(dfa, owner, cps)
                if not same(o_, exp):
                    bad.append((t, o_, exp))
                if len(cps) <= 400:
                    cases.append((cps, o_))
                if isinstance(o_[1], list):
                    dist["error_endings"] += 1
                if any(c > 127 for c in cps):
                    dist["multibyte_inputs"] += 1
            dist["inputs"] += len(texts)
            dist["paddings"] += len(ptexts)
            # Coq model of the loop on the same automaton and the same (short) texts
            wsq = max(dfa.states()) + 1
            tab = "[%s]" % "; ".join("(%d, %s)" % (q, C.coq_string(k)) for q, k in sorted(owner.items()) if all(32 <= ord(ch) < 127 for ch in k))
            path = os.path.join(C.GEN, "cases_C19_%s.v" % name)
            with open(path, "w") as f:
                f.write(CASES_V % {"dfa": c08.dfa_term(dump["dfa"]["trans"], dump["dfa"]["start"]), "tab": tab, "wsq": wsq,
                                   "cases": ";\n".join(case_term(c, o_) for c, o_ in cases[:600])})
            okc, out = C.coqc_file(path, timeout=600)
            m = C.parse_mismatches(out) if okc else None
            rep.obligation("%s: compiled lexer == Coq model of the loop on %d texts" % (name, min(len(cases), 600)), m is not None and not m)
            rep.obligation("%s: compiled lexer == maximal-munch oracle on %d inputs + %d paddings" % (name, len(texts), len(ptexts)), not bad)
            if m is None and ok:
                rep.violation("cases", {"theorem": "gen/cases_C19_%s.v does not compile" % name, "log": out[-2000:]}, no_input=True)
            elif m:
                c0 = cases[m[0]]
                rep.failure("model", {"model"}, {"specification": spec, "input_text": "".join(chr(c) for c in c0[0]), "observed": c0[1]})
            kinds = set()
            for t, o_, exp in sorted(bad, key=lambda x: len(x[0])):
                kind = ("ending" if o_[0] == exp[0] else "tokens")
                if kind in kinds:
                    continue
                kinds.add(kind)
                rep.failure("stream", {"stream"}, {"specification": spec, "input_text": t if len(t) < 400 else None, "input_length": len(t),
                                                   "input_tail": t[-120:], "observed": [o_[0][-3:], o_[1]], "expected": [exp[0][-3:], exp[1]]})
    finally:
        shutil.rmtree(scratch, ignore_errors=True)
    rep.cov["evaluations"] = dist["inputs"] + dist["paddings"]
    rep.cov["distinct_nontrivial"] = dist["inputs"]
    rep.cov["rule"] = ("five specifications (skipped WS/COMMENT terminals, no whitespace terminal at all, an EOL terminal, non-ASCII classes, prefix chains) "
                       "are generated, compiled with a driver and run on: every fragment alone / in pairs / with and without a final newline, random "
                       "compositions, and paddings that move tokens across both 4096-byte boundaries of the emitted reader (every amount within 70 bytes of each boundary plus every 41st amount up to 2*4096+64 in "
                       "the thorough tier); output compared with the Coq model of the loop and with a maximal-munch oracle on the dumped automaton")
    rep.cov["input_distribution"] = dist
    rep.cov["samples"] = [{"specification": s[0][:80]} for s in list(SPECS.values())[:2]]
    if not ok and not rep.violations:
        rep.violation("proof", {"theorem": "Props/C19.v", "log": log[-2500:]}, no_input=True)
    return rep.finish()


def replay(path):
    d = json.load(open(path))
    print(json.dumps({k: d[k] for k in d if k != "log"}, indent=1)[:2000])
    return 1
