"""C15 — the same specification and options give byte-identical output and the same diagnostics in the same order."""
import hashlib
import json
import os
import re
import shutil
import subprocess
import tempfile

from . import common as C
from . import c08
from . import specfam as S

PROP = "C15"

# ---- the traversal sites of /repo and the theorem that covers each (matched against the translator's listing) ----
DEFS_CMP = ("func(lhs, rhs *TerminalDef) int { if !lhs.IsRegex && rhs.IsRegex { return -1 } else if lhs.IsRegex && !rhs.IsRegex { return 1 } "
            "if len(lhs.Terminal) < len(rhs.Terminal) { return -1 } else if len(lhs.Terminal) > len(rhs.Terminal) { return 1 } "
            "return grammar.CmpTerminal(lhs.Terminal, rhs.Terminal) }")

# (file suffix, function, operand) -> (expected description of the loop, theorem, reason)
SITES = {
    ("spec/spec.go", "*Spec.DFA", "stateDefs"):
        ({"element": "key", "filtered": False, "sorter": "slices.Sort", "sorter_pkg": "slices", "sorter_args": ""},
         "terminal_map_independent", "keys collected, sorted ascending, then visited"),
    ("spec/symbol_table.go", "*SymbolTable.ensureDistinctDefs", "reverse"):
        ({"element": "key", "filtered": False, "sorter": "slices.Sort", "sorter_pkg": "slices", "sorter_args": ""},
         "verify_diagnostics_independent", "values collected, sorted ascending, then visited"),
    ("spec/symbol_table.go", "*SymbolTable.orderedTerminals", "t.terminals.table.All()"):
        ({"element": "key", "filtered": False, "sorter": "sort.Quick", "sorter_pkg": "github.com/moorara/algo/sort", "sorter_args": "grammar.CmpTerminal"},
         "collected_then_sorted_strings", "terminals collected, sorted by name"),
    ("spec/symbol_table.go", "*SymbolTable.Definitions", "t.terminals.table.All()"):
        ({"element": "other: e.definitions[0]", "filtered": True, "sorter": "sort.Quick", "sorter_pkg": "github.com/moorara/algo/sort", "sorter_args": DEFS_CMP},
         "definition_list_independent", "single definitions collected, sorted by (pattern?, length of name, name): total on distinct terminals"),
    ("spec/symbol_table.go", "*SymbolTable.Terminals", "t.terminals.table.All()"):
        ({"element": "key", "filtered": False, "sorter": "", "sorter_pkg": "", "sorter_args": ""},
         "inserted_into_ordered_store", "returned unsorted; consumed only as the argument of grammar.NewCFG, which builds a set"),
    ("spec/symbol_table.go", "*SymbolTable.NonTerminals", "t.nonTerminals.table.All()"):
        ({"element": "key", "filtered": False, "sorter": "", "sorter_pkg": "", "sorter_args": ""},
         "inserted_into_ordered_store", "returned unsorted; consumed only as the argument of grammar.NewCFG, which builds a set"),
    ("spec/symbol_table.go", "*SymbolTable.Productions", "t.productions.table.All()"):
        ({"element": "key", "filtered": False, "sorter": "", "sorter_pkg": "", "sorter_args": ""},
         "inserted_into_ordered_store", "returned unsorted; consumed only as the argument of grammar.NewCFG, which builds a set"),
    ("regex/parser/nfa/parser.go", "*mappers.ToCharGroup", "marked"):
        ({"body": "{ nfa.Add(0, auto.Symbol(c), []auto.State{1}) }"},
         "inserted_into_ordered_store", "each marked rune adds the transition 0 -c-> {1}: insertions into the NFA's ordered transition store"),
}
# ordered containers of the dependency (constructor recorded by the translator); traversals of these are deterministic
ORDERED_CTORS = {"NewRedBlack"}
UNORDERED_CTORS = {"NewQuadraticHashTable"}
# packages of /repo that are not linked into the CLI: their sites cannot influence emerge's output
EMOJI_FUNCS = {"getAnimal", "getPlant", "getFruit", "getFood"}

ANSI = re.compile(r"\x1b\[[0-9;]*m")


def strip_decor(b):
    """stdout/stderr with colour codes and the decorative emoji removed (any non-ASCII character)."""
    t = b.decode("utf-8", "replace")
    t = ANSI.sub("", t)
    return "".join(ch for ch in t if ord(ch) < 128)


def sites_listing():
    p = C.run([os.path.join(C.BIN, "gotrans"), "sites", C.REPO], env=C.go_env(), timeout=300)
    if p.returncode != 0:
        raise C.BuildError("gotrans sites failed: " + p.stderr[-500:])
    return json.loads(p.stdout)


def cli_packages():
    p = C.run(["go", "list", "-deps", "./cmd/emerge"], cwd=C.REPO, env=C.go_env(), timeout=300)
    return set(l.strip() for l in p.stdout.split("\n") if "gardenbed/emerge" in l)


def classify_sites(listing, linked):
    """Returns (covered, problems): every unordered traversal must be one of SITES with the recorded shape."""
    covered, problems, skipped = [], [], []
    ctor_by_name = {}
    for c in listing["constructors"]:
        ctor_by_name[c["lhs"].split(".", 1)[-1] if "." in c["lhs"] else c["lhs"]] = c["ctor"]

    def pkg_of(f):
        return "github.com/gardenbed/emerge/" + os.path.dirname(f)

    def lookup(site, is_map):
        key = None
        for (suffix, fn, operand) in SITES:
            if site["file"].endswith(suffix) and site["func"] == fn and site["operand"] == operand:
                key = (suffix, fn, operand)
        where = "%s:%s (%s) range %s" % (site["file"], site["line"], site["func"], site["operand"])
        if pkg_of(site["file"]) not in linked:
            skipped.append(where + " — package not linked into cmd/emerge")
            return
        if key is None:
            problems.append({"site": where, "why": "unordered traversal that no theorem covers", "body": site["body"][:300]})
            return
        want, thm, reason = SITES[key]
        got = site.get("collect") or {}
        if "body" in want:
            ok = site["body"] == want["body"]
        else:
            ok = all(got.get(k) == v for k, v in want.items())
        if ok:
            covered.append({"site": where, "theorem": thm, "shape": reason})
        else:
            problems.append({"site": where, "why": "the loop no longer has the shape the theorem %s is about (%s)" % (thm, reason),
                             "found": got or site["body"][:300]})

    for s_ in listing["map_ranges"]:
        lookup(s_, True)
    for s_ in listing["iterator_ranges"]:
        recv = s_["operand"]
        m = re.match(r"^(.*)\.(All|Transitions)\(\)$", recv)
        base = m.group(1) if m else recv
        name = base.split(".", 1)[-1] if "." in base else base
        ctor = ctor_by_name.get(name)
        if ctor in ORDERED_CTORS or (m and m.group(2) == "Transitions"):
            skipped.append("%s:%s range %s — ordered container of the dependency (%s)" % (s_["file"], s_["line"], recv, ctor or "automata.DFA"))
            continue
        lookup(s_, False)
    return covered, problems, skipped


def newcfg_only(listing):
    """table.Terminals()/NonTerminals()/Productions() are consumed only by grammar.NewCFG."""
    bad = []
    for root, _d, files in os.walk(os.path.join(C.REPO, "internal")):
        if "verifhook" in root:
            continue
        for f in files:
            if not f.endswith(".go") or f.endswith("_test.go") or f == "verif_export.go":
                continue
            src = open(os.path.join(root, f)).read()
            for m in re.finditer(r"\b(\w+)\.(Terminals|NonTerminals|Productions)\(\)", src):
                if m.group(1) not in ("table", "t", "st"):
                    continue
                line = src[src.rfind("\n", 0, m.start()) + 1: src.find("\n", m.end())]
                if "grammar.NewCFG(" not in line:
                    bad.append("%s: %s" % (f, line.strip()))
    return bad


# ---- specifications ----
def gen_verify_spec(rng):
    """A specification built from a table terminal -> values, so that the model's input is known by construction."""
    names = rng.sample(["AA", "BB", "CC", "DD", "EE", "FF", "GG", "NUM", "ID", "KW"], rng.randint(3, 7))
    values = ["x", "y", "z", "if", "w"]
    tab, decls = {}, []
    for n in names:
        k = rng.random()
        if k < 0.2:
            tab[n] = []                       # used, never defined
        elif k < 0.45:
            vs = rng.sample(values, 2)        # defined twice
            tab[n] = vs
            decls += ['%s = "%s";' % (n, v) for v in vs]
        else:
            v = rng.choice(values)            # defined once; values collide across terminals
            tab[n] = [v]
            decls.append('%s = "%s";' % (n, v))
    lits = rng.sample(["x", "q", "r"], rng.randint(0, 2))
    for l in lits:
        tab.setdefault(l, []).append(l)
    body = " ".join(names + ['"%s"' % l for l in lits])
    decls.append("start = %s;" % body)
    rng.shuffle(decls)
    return "grammar g;\n" + "\n".join(decls) + "\n", tab


def parse_verify_error(msg):
    """The diagnostics of SymbolTable.Verify in the order printed: (kind, key, holders)."""
    out, cur = [], None
    for line in msg.split("\n"):
        t = line.strip()
        m = re.match(r'^• no definition for terminal "(.*)"$', t)
        if m:
            out.append([0, m.group(1), []])
            cur = None
            continue
        m = re.match(r'^• multiple definitions for terminal "(.*)":$', t)
        if m:
            out.append([1, m.group(1), []])
            cur = None
            continue
        m = re.match(r'^• multiple definitions with the same value: "(.*)"$', t)
        if m:
            cur = [2, m.group(1), []]
            out.append(cur)
            continue
        m = re.match(r'^(?:\S+:\d+:\d+|<nil>): "(.*)"$', t)
        if m and cur is not None:
            cur[2].append(m.group(1))
    return out


def bl(s):
    return C.coq_nat_list(list(s.encode("utf-8")))


CASES_V = """(* GENERATED: C15 correspondence — the order-independent models evaluated on what the implementation produced *)
From Coq Require Import String List Bool Arith NArith.
From Verif Require Import Reg.MaxMunch Emerge.Perm.
Import ListNotations.
Local Open Scope N_scope.
Local Open Scope string_scope.
Definition nl_eqb (a b : list N) : bool := if list_eq_dec N.eq_dec a b then true else false.
Fixpoint ll_eqb (a b : list (list N)) : bool :=
  match a, b with [], [] => true | x :: a', y :: b' => nl_eqb x y && ll_eqb a' b' | _, _ => false end.
Definition sdiag_eqb (x y : sdiag) : bool :=
  match x, y with
  | NoDef a, NoDef b | MultiDef a, MultiDef b => nl_eqb a b
  | SameVal v h, SameVal w k => nl_eqb v w && ll_eqb h k
  | _, _ => false
  end.
Fixpoint sd_eqb (a b : list sdiag) : bool :=
  match a, b with [], [] => true | x :: a', y :: b' => sdiag_eqb x y && sd_eqb a' b' | _, _ => false end.
(* Verify diagnostics: (table, one delivery order, another delivery order, observed list) *)
Definition vcase := (list (list N * list (list N)) * list (list N) * list (list N) * list (list N) * list sdiag)%%type.
Definition vagrees (c : vcase) : bool :=
  let '(tab, p, q, vals, obs) := c in
  sd_eqb (verify_diags tab p p vals) obs && sd_eqb (verify_diags tab q q (rev vals)) obs.
Definition vcases : list vcase := [
%(vcases)s
].
Definition M := Eval vm_compute in mismatches vagrees 0 vcases.
Print M.
(* terminal map: (state_map, definitions, delivery order, observed per-definition states, observed conflicts as lists of terminal names) *)
Fixpoint tm_eqb (a b : list (string * list N)) : bool :=
  match a, b with
  | [], [] => true
  | (s, l) :: a', (t, k) :: b' => String.eqb s t && nl_eqb l k && tm_eqb a' b'
  | _, _ => false
  end.
Fixpoint names_eqb (a b : list string) : bool :=
  match a, b with [], [] => true | x :: a', y :: b' => String.eqb x y && names_eqb a' b' | _, _ => false end.
Fixpoint cf_eqb (a : list (list tdef)) (b : list (list string)) : bool :=
  match a, b with [], [] => true | x :: a', y :: b' => names_eqb (map td_term x) y && cf_eqb a' b' | _, _ => false end.
Definition tcase := (list (list N) * list tdef * list N * list (string * list N) * list (list string))%%type.
Definition tagrees (c : tcase) : bool :=
  let '(sm, defs, order, obs_tm, obs_cf) := c in
  let r := dfa_result order sm defs in
  let r' := dfa_result (rev order) sm defs in
  tm_eqb (fst r) obs_tm && cf_eqb (snd r) obs_cf && tm_eqb (fst r') obs_tm && cf_eqb (snd r') obs_cf.
Definition tcases : list tcase := [
%(tcases)s
].
Definition W := Eval vm_compute in mismatches tagrees 0 tcases.
Print W.
"""

TOKEN_SPECS = [
    'grammar calc;\nNUM = /[0-9]+/;\nID = $ID;\nSTR = $STRING;\nstart = NUM ID "if" "else" "elif" STR;\n',
    'grammar d;\nNUM = /[0-9]+/;\nINT = /[0-9][0-9]*/;\nAA = /a+/;\nBB = /aa*/;\nCC = /c|cc/;\nDD = /cc?/;\nstart = NUM INT AA BB CC DD;\n',
    'grammar k;\nID = /[a-z]+/;\nstart = ID "a" "ab" "abc" "b" "ba" "if" "in" "int";\n',
    'grammar m;\nHEX = /0x[0-9a-f]+/;\nNUM = /[0-9]+/;\nFLT = /[0-9]+\\.[0-9]+/;\nID = $ID;\nstart = HEX NUM FLT ID "0" "00";\n',
    'grammar o;\nAA = /ab|cd/;\nBB = /ab/;\nCC = /cd/;\nDD = "ab";\nstart = AA BB CC DD;\n',
    # several definitions that are rejected when the scanner is built: the diagnostics must come in one order
    'grammar b;\nAA = /a{3,1}/;\nBB = /[z-a]/;\nCC = /c{2,1}/;\nDD = /[9-0]/;\nEE = /e{5,2}/;\nFF = /[y-b]/;\nGG = /g{4,3}/;\nHH = /[x-c]/;\nstart = AA BB CC DD EE FF GG HH;\n',
    # names that differ only in letter case: the order must still be a total one
    'grammar c;\nID = /[a-z]+/;\nNUM = /[0-9]+/;\nstart = ID NUM "e" "E" "ab" "AB" "Ab" "aB" "if" "IF" "If" "iF" "x" "X";\n',
]


def parse_conflicts(msg):
    out, cur = [], None
    for line in msg.split("\n"):
        t = line.strip()
        if t.startswith("• conflicting definitions capture the same string"):
            cur = []
            out.append(cur)
            continue
        m = re.match(r'^\S*: "(.*)"$', t)
        if m and cur is not None:
            cur.append(m.group(1))
    return out


def run_cli(exe, spec_path, outdir, timeout=120):
    os.makedirs(outdir)
    try:
        p = subprocess.run([exe, "-out", outdir, spec_path], stdout=subprocess.PIPE, stderr=subprocess.PIPE, timeout=timeout)
    except subprocess.TimeoutExpired:
        return {"status": "timeout"}
    files = {}
    for root, _d, fs in os.walk(outdir):
        for f in sorted(fs):
            files[os.path.relpath(os.path.join(root, f), outdir)] = hashlib.sha256(open(os.path.join(root, f), "rb").read()).hexdigest()
    return {"status": p.returncode, "stdout": strip_decor(p.stdout), "stderr": strip_decor(p.stderr), "files": files}


GRAMMAR_VERIFY_LINES = ("no production rule for non-terminal symbol", "non-terminal symbol", "terminal symbol", "production head")


def only_cfg_verify_order(a, b):
    """True when two renderings differ only in the order of the dependency's grammar.Verify lines (known finding D19c)."""
    la, lb = a.split("\n"), b.split("\n")
    if sorted(la) != sorted(lb):
        return False
    diff = [x for x, y in zip(la, lb) if x != y]
    return all(any(k in x for k in GRAMMAR_VERIFY_LINES) for x in diff)


def check(tier):
    rep = C.Report(PROP, tier, "proof")
    rng = C.rng_for(PROP)
    ok, log = C.coq_make(["theories/Props/C15.vo"])
    thms = ["collected_then_sorted_states", "collected_then_sorted_strings", "inserted_into_ordered_store", "per_entry_update",
            "terminal_map_independent", "terminal_states_ascending", "conflicts_in_state_order", "verify_diagnostics_independent",
            "definition_list_independent", "terminal_map_in_map_order_refuted", "diagnostics_in_table_order_refuted"]
    for t in thms:
        rep.obligation("Props/C15.v: " + t, ok)
    C.build_tools()

    # ---- T: the traversal sites of the current source ----
    listing = sites_listing()
    linked = cli_packages()
    covered, problems, skipped = classify_sites(listing, linked)
    rep.obligation("every unordered traversal of the linked packages has the shape its theorem is about (%d sites)" % len(covered), not problems)
    sched = [s_ for s_ in listing["scheduling"] if ("github.com/gardenbed/emerge/" + os.path.dirname(s_["file"])) in linked]
    rep.obligation("no go/select statement or channel range in the linked packages", not sched)
    amb = [a for a in listing["ambient"] if a["func"] not in EMOJI_FUNCS]
    rep.obligation("time, random numbers, environment: used only by the emoji pickers", not amb)
    unordered_calls = [u for u in listing.get("unordered_calls", []) if ("github.com/gardenbed/emerge/" + os.path.dirname(u["file"])) in linked]
    rep.obligation("no maps.Keys/Values/All, reflect map iteration or sync.Map.Range in the linked packages (unordered sequences outside a range statement)", not unordered_calls)
    cfg_bad = newcfg_only(listing)
    rep.obligation("Terminals()/NonTerminals()/Productions() are consumed only by grammar.NewCFG", not cfg_bad)
    rep.obligation("the translator type-checked every package", not listing["type_errors"])
    rep.cov["sites"] = covered
    rep.cov["sites_not_modelled"] = skipped
    site_problems = problems + [{"site": "%s:%s" % (s_["file"], s_["line"]), "why": "scheduling: " + s_["call"]} for s_ in sched] \
        + [{"site": "%s:%s" % (a["file"], a["line"]), "why": "ambient input: " + a["call"]} for a in amb] \
        + [{"site": b, "why": "unsorted table listing used outside grammar.NewCFG"} for b in cfg_bad] \
        + [{"site": "%s:%s" % (u["file"], u["line"]), "why": "unordered sequence: " + u["call"]} for u in unordered_calls]

    # ---- M: the models against the implementation ----
    nver = 60 if tier == "quick" else 400
    vspecs = [gen_verify_spec(rng) for _ in range(nver)]
    vres = C.hook_batch([{"op": "spec", "text": t} for t, _ in vspecs])
    vcases, vtexts = [], []
    for (text, tab), r in zip(vspecs, vres):
        obs = parse_verify_error(r.get("error", "")) if r.get("outcome") == "error" else []
        keys = sorted(tab)
        p = keys[:]
        rng.shuffle(p)
        q = keys[::-1]
        vals = sorted(set(v for vs in tab.values() if len(vs) == 1 for v in vs))
        rng.shuffle(vals)
        tabt = "[%s]" % "; ".join("(%s, [%s])" % (bl(k), "; ".join(bl(v) for v in tab[k])) for k in keys)
        obst = "[%s]" % "; ".join(("NoDef %s" % bl(k)) if kind == 0 else ("MultiDef %s" % bl(k)) if kind == 1
                                  else "SameVal %s [%s]" % (bl(k), "; ".join(bl(h) for h in hs)) for kind, k, hs in obs)
        vcases.append("(%s, [%s], [%s], [%s], %s)" % (tabt, "; ".join(bl(x) for x in p), "; ".join(bl(x) for x in q), "; ".join(bl(x) for x in vals), obst))
        vtexts.append((text, obs))
    tspecs = list(TOKEN_SPECS)
    for _ in range(20 if tier == "quick" else 150):
        kws = rng.sample(["if", "in", "int", "a", "ab", "abc", "b", "do", "done", "x1", "IF", "In", "A", "AB", "Ab", "B", "DO"], rng.randint(1, 8))
        pats = rng.sample([("ID", "/[a-z][a-z0-9]*/"), ("NUM", "/[0-9]+/"), ("AB", "/(ab)+/"), ("AS", "/a+/"), ("AL", "/[a-c]+/"), ("DS", "/d(o|one)?/")], rng.randint(1, 4))
        tspecs.append("grammar t;\n" + "\n".join("%s = %s;" % p for p in pats) + "\nstart = " + " ".join([p[0] for p in pats] + ['"%s"' % k for k in kws]) + ";\n")
    tres = C.hook_batch([{"op": "term_map", "text": t} for t in tspecs])
    tcases, ttexts = [], []
    for text, r in zip(tspecs, tres):
        if r.get("outcome") != "ok":
            continue
        defs = r["definitions"]
        keys = sorted(set(f for l in r["state_map"] for f in l))
        rng.shuffle(keys)
        if "dfa_error" in r:
            obs_tm, obs_cf = [], parse_conflicts(r["dfa_error"])
        else:
            obs_tm, obs_cf = [(d[0], r["term_map_raw"].get(d[0], [])) for d in defs], []
            if not r.get("same_automaton", True):
                rep.failure("automaton", {"automaton"}, {"input_text": text, "why": "CombineDFA numbered the states differently in two calls"})
        if not all(all(32 <= ord(ch) < 127 for ch in d[0]) for d in defs):
            continue
        tcases.append("([%s], [%s], %s, [%s], [%s])" % (
            "; ".join(C.coq_nat_list(l) for l in r["state_map"]),
            "; ".join("{| td_term := %s; td_regex := %s; td_pos := %s |}" % (C.coq_string(d[0]), "true" if d[1] else "false", C.coq_string(d[2])) for d in defs),
            C.coq_nat_list(keys),
            "; ".join("(%s, %s)" % (C.coq_string(a), C.coq_nat_list(l)) for a, l in obs_tm),
            "; ".join("[%s]" % "; ".join(C.coq_string(x) for x in cf) for cf in obs_cf)))
        ttexts.append((text, obs_tm, obs_cf))
    path = os.path.join(C.GEN, "cases_C15.v")
    with open(path, "w") as f:
        f.write(CASES_V % {"vcases": ";\n".join(vcases), "tcases": ";\n".join(tcases)})
    okc, out = C.coqc_file(path, timeout=600)
    mv = C.parse_mismatches(out, "M") if okc else None
    mt = C.parse_mismatches(out, "W") if okc else None
    rep.obligation("Verify diagnostics (content and ORDER) of spec.Parse == model under two delivery orders, %d specifications" % len(vcases), mv is not None and not mv)
    rep.obligation("terminal map / conflict diagnostics of Spec.DFA == model under two delivery orders, %d specifications" % len(tcases), mt is not None and not mt)
    if not okc and ok:
        rep.violation("cases", {"theorem": "gen/cases_C15.v does not compile", "log": out[-2000:]}, no_input=True)
    for i in (mv or [])[:2]:
        rep.failure("verify-order", {"verify-order"}, {"input_text": vtexts[i][0], "observed_diagnostics": vtexts[i][1],
                                                       "why": "the diagnostics are not in the order of the model (ascending terminal, then ascending value)"})
    for i in (mt or [])[:2]:
        rep.failure("terminal-map", {"terminal-map"}, {"input_text": ttexts[i][0], "observed_states": ttexts[i][1], "observed_conflicts": ttexts[i][2],
                                                       "why": "final states per terminal / conflicts are not in ascending state order as in the model"})

    # ---- in-process repetitions (every traversal draws a new order) ----
    rspecs = [t for t, _ in vspecs[:25 if tier == "quick" else 150]] + tspecs[:12 if tier == "quick" else 60]
    rspecs += ['grammar d;\nstart = aa bb cc dd "x";\n', 'grammar d;\nstart = expr;\nexpr = expr "+" expr | expr "*" expr | "x";\n',
               'grammar d;\n@left "+" "-";\n@right "+";\n@none "-";\nstart = start "+" start | start "-" start | "x";\n',
               'grammar d;\nstart = aa | bb;\naa = "x";\nbb = "x";\n', 'grammar d;\naa = "x";\nbb = "y" aa;\n']
    # patterns that are wrong in two ways at once (a recorded range problem AND a syntax failure), next to valid ones: whatever one
    # pattern leaves behind must not show in the diagnostics of the next run
    rspecs += ['grammar d;\nWORD = /[a-z]+/\nBROKEN = /x{3,1}(/\nstart = WORD BROKEN;\n',
               'grammar d;\nAA = /[z-a]x)/\nBB = /[0-9]+/\nCC = /b{2,1}/\nstart = AA BB CC;\n',
               'grammar d;\nAA = /(/\nBB = /[9-0]/\nCC = /c+/\nstart = AA BB CC;\n',
               'grammar d;\nAA = /a{4,2})/\nBB = /[0-9]+/\nstart = AA BB;\n']
    # the same bracket written twice, its alternatives differing only in KIND (the literal "x" and the rule x; the token ID and the rule id):
    # both occurrences must get one synthesised non-terminal, run after run
    rspecs += ['grammar d;\nstart = ( "x" | x ) "a" | ( "x" | x ) "a" "b";\nx = "y";\n',
               'grammar d;\nstart = { "x" | x } "a" { x | "x" };\nx = "y";\n',
               'grammar d;\nstart = [ x "x" | "x" x ] "a" [ "x" x | x "x" ] "b";\nx = "y";\n',
               'grammar d;\nstart = {{ "plus" | plus }} ";" {{ plus | "plus" }};\nplus = "+";\n']
    # many diagnostics of one kind at once (whatever is reported must be the same set and order in every run)
    rspecs += ["grammar d;\nstart = " + " ".join("T%02d" % i for i in range(1, 15)) + ";\n",
               "grammar d;\nstart = " + " ".join("T%02d" % i for i in range(1, 31)) + ";\n" + "".join('T%02d = "a";\nT%02d = "b";\n' % (i, i) for i in range(16, 31))]
    for _ in range(15 if tier == "quick" else 120):
        rspecs.append(S.gen_wellformed(rng))
    times = 12 if tier == "quick" else 40
    rres = C.hook_map([{"op": "repeat", "times": times, "text": t} for t in rspecs], timeout_each=120)
    nondet, known_hits = [], 0
    for t, r in zip(rspecs, rres):
        if not r or r.get("outcome") != "ok":
            continue
        if r["distinct"] > 1:
            vs = r["variants"]
            a, b = json.loads(vs[0]), json.loads(vs[1])
            keys = [k for k in set(a) | set(b) if a.get(k) != b.get(k)]
            if keys == ["parse_error"] and all(only_cfg_verify_order(json.loads(vs[0])["parse_error"], json.loads(v)["parse_error"]) for v in vs[1:]):
                known_hits += 1
                rep.failure("cfg-verify-order", {"cfg-verify-order"}, {"input_text": t, "run_1": a["parse_error"], "run_2": b["parse_error"]})
                continue
            nondet.append((t, keys, {k: a.get(k) for k in keys}, {k: b.get(k) for k in keys}))
    # the same specification after ANOTHER one in the same process (one text a string there and a pattern here): same result as alone
    twins = [('grammar wild;\nANY = /./\nstart = ANY;\n', 'grammar path;\nID = /[a-z]+/\nstart = ID | start "." ID;\n'),
             ('grammar lit;\nstart = "+" "a+" start | ;\n', 'grammar pat;\nPLUS = /+/\nAS = /a+/\nstart = PLUS AS;\n'),
             ('grammar pat;\nAS = /a+/\nstart = AS;\n', 'grammar lit;\nstart = "a+" "b";\n')]
    treqs = [{"op": "sequence", "texts": [b_], "patterns": []} for _, b_ in twins] + [{"op": "sequence", "texts": [a_, b_], "patterns": []} for a_, b_ in twins]
    tres = [C.hook_batch([rq])[0] for rq in treqs]
    for k, (a_, b_) in enumerate(twins):
        alone, after = tres[k], tres[len(twins) + k]
        if alone.get("outcome") == "ok" and after.get("outcome") == "ok" and alone["results"][0] != after["results"][1]:
            nondet.append((b_, ["result after another specification"], {"alone": alone["results"][0][:500]},
                           {"after": a_, "result": after["results"][1][:500]}))
    rep.obligation("in-process: %d runs each of %d specifications give one observable result (and %d specifications the same result after another one)"
                   % (times, len(rspecs), len(twins)), not nondet)
    for t, keys, a, b in nondet[:3]:
        rep.failure("in-process", {"in-process"}, {"input_text": t, "differs_in": keys, "run_1": a, "run_2": b})

    # ---- fresh processes: bytes of every file, stdout/stderr without the emoji, exit status ----
    exe = c08.emerge_binary()
    scratch = tempfile.mkdtemp(prefix="verif-c15-")
    runs = 4 if tier == "quick" else 10
    cspecs = TOKEN_SPECS + [t for t, _ in vspecs[:6 if tier == "quick" else 40]] + rspecs[-8:]
    differing = []
    try:
        for i, t in enumerate(cspecs):
            sp = os.path.join(scratch, "s%d.grammar" % i)
            with open(sp, "w") as f:
                f.write(t)
            outs = [run_cli(exe, sp, os.path.join(scratch, "o%d_%d" % (i, k))) for k in range(runs)]
            for k in range(runs):
                shutil.rmtree(os.path.join(scratch, "o%d_%d" % (i, k)), ignore_errors=True)
            norm = []
            for o in outs:
                o = dict(o)
                for key in ("stdout", "stderr"):
                    o[key] = re.sub(r"o\d+_\d+", "OUT", o.get(key, ""))
                norm.append(o)
            first = norm[0]
            for o in norm[1:]:
                if o != first:
                    keys = [k for k in first if first.get(k) != o.get(k)]
                    if all(k in ("stdout", "stderr") for k in keys) and all(only_cfg_verify_order(first[k], o[k]) for k in keys):
                        rep.failure("cfg-verify-order", {"cfg-verify-order"}, {"input_text": t, "run_1": first["stderr"][-600:], "run_2": o["stderr"][-600:]})
                    else:
                        differing.append((t, keys, {k: first[k] for k in keys}, {k: o[k] for k in keys}))
                    break
    finally:
        shutil.rmtree(scratch, ignore_errors=True)
    rep.obligation("fresh processes: %d runs each of %d specifications: same files (bytes), same messages, same status" % (runs, len(cspecs)), not differing)
    for t, keys, a, b in differing[:3]:
        rep.failure("process", {"process"}, {"input_text": t, "differs_in": keys, "run_1": a, "run_2": b})

    # a site that no theorem covers: the dynamic runs above are the search for a failing input
    if site_problems:
        found = bool(nondet or differing)
        for pr in site_problems[:4]:
            rep.violation("site", dict(pr, theorem="C15 site table: traversal not covered"), no_input=not found)

    rep.cov["evaluations"] = len(vcases) + len(tcases) + len(rspecs) * times + len(cspecs) * runs
    rep.cov["distinct_nontrivial"] = len(vcases) + len(tcases) + len(rspecs) + len(cspecs)
    rep.cov["rule"] = ("sites: translator listing of every map range / hash-table traversal / go statement / package variable write / ambient call, matched "
                       "with the theorem per site; models: Verify diagnostics and the terminal map evaluated in Coq under two delivery orders and compared "
                       "(content and order) with spec.Parse / Spec.DFA; dynamic: %d in-process runs and %d fresh processes per specification" % (times, runs))
    rep.cov["input_distribution"] = {"verify_specs": len(vcases), "with_diagnostics": sum(1 for _, o in vtexts if o),
                                     "token_specs": len(tcases), "with_conflicts": sum(1 for _, _, cf in ttexts if cf),
                                     "multi_state_terminals": sum(1 for _, tm, _ in ttexts if any(len(l) > 1 for _, l in tm)),
                                     "in_process_specs": len(rspecs), "cli_specs": len(cspecs), "known_finding_hits": known_hits}
    rep.cov["partial"] = ["process-level determinism (scheduler, OS) is runtime behaviour: exercised, not modelled",
                          "the dependency's containers are trusted to be order-insensitive as sets/ordered maps; its own diagnostics (grammar.Verify) are not (known finding)"]
    if not ok and not rep.violations:
        rep.violation("proof", {"theorem": "Props/C15.v", "log": log[-2500:]}, no_input=True)
    return rep.finish()


def replay(path):
    d = json.load(open(path))
    print(json.dumps({k: d[k] for k in d if k != "log"}, indent=1)[:3000])
    return 1
