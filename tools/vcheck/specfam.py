"""Shared machinery of the specification properties (C01, C07, C11, C12, C13): generators of specification
texts, the hook driver for spec.Parse, Coq case rendering for the pipeline model."""
import json
import os

from . import common as C

NAMES = ["a", "b", "c", "expr", "term", "plus", "star", "gen1_star", "gen_x_opt", "gen_plus_star", "gen2_group", "x"]
LITS = ['"+"', '"*"', '"("', '")"', '"x"', '"if"', '";"', '"-"', '"a\\"b"']
TOKS = ["NUM", "ID", "IF", "WS2"]
TOKDEFS = {"NUM": "/[0-9]+/", "ID": "$ID", "IF": '"if_"', "WS2": "/[ ]+/"}


def gen_body(rng, names, depth, subexprs):
    """EBNF body; 'subexprs' collects generated sub-expressions so that the same one can re-appear under other operators."""
    k = rng.random()
    if depth <= 0 or k < 0.25:
        return rng.choice(names + LITS[:6] + TOKS[:2])
    if subexprs and k < 0.35:
        inner = rng.choice(subexprs)
    elif k < 0.55:
        return gen_body(rng, names, depth - 1, subexprs) + " " + gen_body(rng, names, depth - 1, subexprs)
    elif k < 0.68:
        left = gen_body(rng, names, depth - 1, subexprs)
        if rng.random() < 0.15:
            return left + " | " + left            # the same alternative twice
        return left + " | " + gen_body(rng, names, depth - 1, subexprs)
    elif k < 0.73:
        return gen_body(rng, names, depth - 1, subexprs) + " |"
    else:
        inner = gen_body(rng, names, depth - 1, subexprs)
        subexprs.append(inner)
    return rng.choice(["(%s)", "[%s]", "{%s}", "{{%s}}"]) % inner


def gen_wellformed(rng, nrules=None, collide=0.3):
    """A well-formed specification: every non-terminal has a rule, every token a definition, a start rule exists."""
    pool = list(NAMES) if rng.random() < collide else ["a", "b", "c", "expr", "term", "x"]
    n = nrules or rng.randint(1, 5)
    names = rng.sample(pool, min(n, len(pool)))
    subexprs = []
    decls = []
    used_toks = set()
    bodies = {}
    for nm in ["start"] + names:
        if rng.random() < 0.08:
            body = ""
        else:
            body = gen_body(rng, names, rng.randint(0, 3), subexprs)
        bodies[nm] = body
        for t in TOKS:
            if t in body.replace("(", " ").replace(")", " ").replace("[", " ").replace("]", " ").replace("{", " ").replace("}", " ").split():
                used_toks.add(t)
        decls.append("%s = %s;" % (nm, body))
    for t in sorted(used_toks):
        decls.append("%s = %s%s" % (t, TOKDEFS[t], rng.choice([";", ""])))
    rng.shuffle(decls)
    if rng.random() < 0.4:
        hs = rng.sample(LITS[:4], rng.randint(1, 2))
        decls.insert(rng.randrange(len(decls) + 1), "%s %s;" % (rng.choice(["@left", "@right", "@none"]), " ".join(hs)))
    return "grammar g%s\n%s\n" % (rng.choice([";", ""]), "\n".join(decls))


OPERATOR_PAIRS = []
for o1 in ["(%s)", "[%s]", "{%s}", "{{%s}}"]:
    for o2 in ["(%s)", "[%s]", "{%s}", "{{%s}}"]:
        OPERATOR_PAIRS.append((o1, o2))


def exhaustive_small():
    """Every small body placed under every pair of operators (where the shared memo entry bites)."""
    bodies = ["a", '"+"', "a b", "a | b", "a |", 'a "+" | b', "plus", "[a]", "{a} b", "a | a", '"+" | "+"', "a b | a b", "a | b | a", "a | | a"]
    out = []
    for body in bodies:
        for o1, o2 in OPERATOR_PAIRS:
            out.append('grammar g; start = %s %s; a = "x"; b = "y"; plus = "p";\n' % (o1 % body, o2 % body))
    # two different bodies, each under two operators (two shared memo entries)
    for b1, b2 in [("a", "b"), ("a b", "b a"), ('"+"', "a"), ("a | b", "b")]:
        for o1, o2 in OPERATOR_PAIRS:
            if o1 != o2:
                out.append('grammar g; start = %s %s "z" %s %s; a = "x"; b = "y"; plus = "p";\n'
                           % (o1 % b1, o2 % b1, o1 % b2, o2 % b2))
    return out


def sym_term(s):
    return ("ST %s" if s[0] == "t" else "SN %s") % C.coq_string(s[1])


def prods_term(prods):
    return "[" + "; ".join("(%s, [%s])" % (C.coq_string(p["head"]), "; ".join(sym_term(x) for x in p["body"])) for p in prods) + "]"


def printable(text):
    return all(ch in "\n\t\r" or 32 <= ord(ch) < 127 for ch in text)
