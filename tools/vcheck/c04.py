"""C04 — the built-in EBNF parser accepts exactly the documented, disambiguated grammar."""
import itertools
import json
import os
import shutil
import tempfile

from . import common as C
from . import lrfam as L
from . import docgrammar as D
from . import c18

PROP = "C04"

CANON_V = """(* GENERATED: the documented reading (independent recursive-descent reader) of sampled sentences is canonical
   for the classification of Cfg/EbnfDoc.v, is a parse tree of the translated grammar, and is the tree the model builds *)
From Coq Require Import String List Bool Arith NArith.
From Verif Require Import Cfg.LR Cfg.LRSafe Cfg.LRComplete Cfg.EbnfDoc Reg.MaxMunch.
From VerifGen Require Import TableGo.
Import ListNotations.
Local Open Scope N_scope.
Fixpoint ev_eqb (a b : list event) : bool :=
  match a, b with
  | [], [] => true
  | EvTok i :: a', EvTok j :: b' => Nat.eqb i j && ev_eqb a' b'
  | EvProd p :: a', EvProd q :: b' => (p =? q) && ev_eqb a' b'
  | _, _ => false
  end.
(* (tokens, the dictated tree or None when the documented reading rejects the sequence) *)
Definition agrees (c : list N * option tree) : bool :=
  let '(toks, ot) := c in
  let '(tr, o) := run ebnf_grammar ebnf_table ebnf_eof ebnf_err_state toks EndOfInput (N.to_nat 100000) init in
  match ot with
  | Some t => match LRComplete.classify ebnf_rules t with Some _ => true | None => false end
              && ev_eqb tr (post t) && match o with OAccept => true | _ => false end
  | None => match o with OAccept => false | _ => true end
  end.
Definition cases : list (list N * option tree) := [
%s
].
Definition M := Eval vm_compute in mismatches agrees 0 cases.
Print M.
"""

# representatives of the 22 token kinds used for the exhaustive short-sequence sweep
REDUCED = ["IDENT", "TOKEN", "STRING", "REGEX", "=", ";", "|", "(", ")", "[", "]", "<", ">", "@left", "{{", "}}"]


def regenerate_table():
    """Copy /repo to a scratch directory, run the generator there, compare bytes. Returns (ok, detail)."""
    scratch = tempfile.mkdtemp(prefix="verif-regen-")
    try:
        dst = os.path.join(scratch, "repo")
        shutil.copytree(C.REPO, dst, ignore=shutil.ignore_patterns(".git"))
        pdir = os.path.join(dst, "internal", "ebnf", "parser")
        before = open(os.path.join(pdir, "parsing_table.go"), "rb").read()
        p = C.run(["go", "run", "./generate"], cwd=pdir, env=C.go_env(), timeout=600)
        if p.returncode != 0:
            return False, "generator failed: " + (p.stdout + p.stderr)[-1500:]
        after = open(os.path.join(pdir, "parsing_table.go"), "rb").read()
        if before == after:
            return True, "identical (%d bytes)" % len(after)
        # first differing line
        bl, al = before.decode("utf-8", "replace").split("\n"), after.decode("utf-8", "replace").split("\n")
        for i, (x, y) in enumerate(itertools.zip_longest(bl, al)):
            if x != y:
                return False, "first difference at line %d: checked-in %r / regenerated %r" % (i + 1, x, y)
        return False, "differs"
    finally:
        shutil.rmtree(scratch, ignore_errors=True)


def check(tier):
    rep = C.Report(PROP, tier, "proof")
    rng = C.rng_for(PROP)
    try:
        tr, T = L.regen()
    except C.BuildError as e:
        rep.obligation("translate parsing_table.go", False)
        rep.violation("translator", {"theorem": "gen/TableGo.v cannot be regenerated", "detail": str(e)}, no_input=True)
        return rep.finish()
    ok, log = C.coq_make(["theories/Props/C04.vo"])
    for t in ["ebnf_table_is_lalr", "reference_is_nontrivial", "ebnf_table_safe", "ebnf_parser_sound",
              "ebnf_complete_check / ebnf_canon_check (Cfg/EbnfCert.v: certificates recomputed for the regenerated table)",
              "ebnf_parser_complete", "ebnf_parser_builds_the_canonical_tree", "ebnf_parser_accepts_exactly_the_disambiguated_grammar",
              "the_disambiguation_leaves_no_choice", "a_canonical_sentence_exists", "forbidden_shapes_are_not_canonical"]:
        rep.obligation("Props/C04.v: " + t, ok)
    rep.cov["print_assumptions"] = "Closed under the global context x%d" % log.count("Closed under the global context") if ok else "n/a"
    rep.cov["partial"] = ["that the tree classification of Cfg/EbnfDoc.v IS the documented reading is validated per explored token sequence against "
                          "the independent recursive-descent reader and the Earley recogniser of the documented grammar (everything else in "
                          "claim 4 is a theorem for token sequences of any length)"]
    rep.cov["table_entries_enumerated"] = {"action": len(T.action), "goto": len(T.goto), "states": len(T.states),
                                           "pairs": len(T.states) * (len(T.terms) + 1 + len(T.nts))}
    rep.cov["exhaustive"] = True

    # claim 2: byte-for-byte regeneration
    rok, detail = regenerate_table()
    rep.obligation("regeneration reproduces parsing_table.go byte for byte", rok)
    rep.cov["regeneration"] = detail

    # claim 4 (supporting differential test): all short token sequences + valid specs, against the documented grammar
    hook = C.Hook()
    g = D.doc_grammar()
    seqs = []
    maxlen = 3 if tier == "quick" else 4
    for n in range(0, maxlen + 1):
        for t in itertools.product(REDUCED, repeat=n):
            seqs.append(["grammar", "IDENT"] + list(t))
    for n in range(0, 3):
        for t in itertools.product(list(T.terms), repeat=n):
            seqs.append(list(t))
    # sentences of the grammar that the greedy reading of handles rejects (a TOKEN after a directive without semicolon), and
    # their accepted neighbours
    greedy_seqs = []
    for d in ["@left", "@right", "@none"]:
        for h in (["STRING"], ["TOKEN"], ["<", "IDENT", "=", "IDENT", ">"], ["STRING", "TOKEN"]):
            for semi in ([], [";"]):
                for nxt in (["TOKEN", "=", "STRING"], ["TOKEN", "=", "REGEX", ";"], ["IDENT", "=", "STRING", ";"]):
                    seqs.append(["grammar", "IDENT"] + [d] + h + semi + nxt)
                    greedy_seqs.append(seqs[-1])
    specs = list(L.FIXTURE_SPECS) + [L.gen_spec(rng) for _ in range(80 if tier == "quick" else 1500)]
    valid_streams = []
    for sp in specs:
        toks, end = L.lex_kinds(hook, sp)
        if end == "eof":
            ks = [k for k, _ in toks]
            seqs.append(ks)
            valid_streams.append(ks)
    # sentences with deep operator nesting (the disambiguation-sensitive shapes)
    for _ in range(60 if tier == "quick" else 1500):
        body = L.gen_rhs(rng, rng.randint(2, 5))
        toks, end = L.lex_kinds(hook, "grammar g; a = %s;" % body)
        if end == "eof":
            ks = [k for k, _ in toks]
            seqs.append(ks)
            valid_streams.append(ks)
    seen, uniq = set(), []
    for s in seqs:
        if tuple(s) not in seen:
            seen.add(tuple(s))
            uniq.append(s)
    seqs = uniq
    results = []
    for o in range(0, len(seqs), 2000):
        results.extend(hook.call({"op": "parse_many", "seqs": seqs[o:o + 2000]}).get("results", []))
    # The property's language is the documented grammar AS DISAMBIGUATED (handles and operands are consumed greedily): a
    # sentence of the grammar whose greedy reading fails (`@none "x" TOK = "y";` - TOK is taken as a handle) is to be rejected.
    # Expected verdict = the recursive-descent reading of the documentation succeeds; Earley cross-checks it (RD ok => sentence).
    lang_bad, n_acc, n_greedy, oracle_bad = [], 0, 0, []
    for s, r in zip(seqs, results):
        acc, _ = g.earley(s)
        rd_ok = D.dictated_tree(s, T)[0] == "ok"
        if rd_ok and not acc:
            oracle_bad.append(s)
        if acc and not rd_ok:
            n_greedy += 1
        if (r[0] == 0) != rd_ok:
            lang_bad.append((s, r, acc))
        n_acc += 1 if rd_ok else 0
    # the verdict is a function of the token KINDS: the same sequence spelled as text, all on one line and one token per line, through the
    # real scanner (positions differ, kinds do not) must get the verdict computed above
    SPELL = {"grammar": "grammar", "IDENT": "ab", "TOKEN": "TK", "STRING": '"s"', "REGEX": "/r/", "PREDEF": "$ID"}
    sample = [i for i in range(len(seqs)) if 4 <= len(seqs[i]) <= 14]
    rng.shuffle(sample)
    sample = sample[: (120 if tier == "quick" else 1500)]
    # sequences where a TOKEN follows a directive's handles (one more handle, greedily - whatever line it is on)
    extra = [["grammar", "IDENT", "@left", "TOKEN", "TOKEN", "=", "STRING"], ["grammar", "IDENT", ";", "@left", "TOKEN", "TOKEN", ";"],
             ["grammar", "IDENT", "@none", "TOKEN", "STRING", "TOKEN", "=", "REGEX", ";"], ["grammar", "IDENT", "@right", "STRING", "TOKEN", "=", "STRING", ";"]]
    layout_bad = []
    for s_ in [seqs[i] for i in sample] + extra:
        want = D.dictated_tree(s_, T)[0] == "ok"
        words = [SPELL.get(k, k) for k in s_]
        for sep in (" ", "\n", "\n\n  "):
            rt = hook.call({"op": "parse_trace", "mode": "parse", "text": sep.join(words) + "\n"})
            got = rt.get("error") is None and rt.get("outcome") == "ok"
            if got != want:
                layout_bad.append((s_, sep, got, want))
                break
    # sentences that need a DEEP stack or are LONG (the property has no bound on either): valid by construction
    deep, deep_bad = [], []
    head = ["grammar", "IDENT", ";", "IDENT", "="]
    for n_ in ((300, 700, 1500, 4000) if tier == "quick" else (300, 511, 700, 1023, 1024, 1500, 4000, 20000)):
        deep.append(("%d alternatives (| groups to the right)" % n_, head + ["IDENT"] + ["|", "IDENT"] * n_ + [";"]))
        deep.append(("%d juxtaposed operands" % n_, head + ["IDENT"] * n_ + [";"]))
        deep.append(("%d declarations" % n_, ["grammar", "IDENT"] + ["IDENT", "=", "STRING", ";"] * n_))
        for o_, c_ in (("(", ")"), ("[", "]"), ("{", "}"), ("{{", "}}")):
            deep.append(("%d nested %s %s" % (n_, o_, c_), head + [o_] * n_ + ["IDENT"] + [c_] * n_ + [";"]))
        deep.append(("%d handles" % n_, ["grammar", "IDENT", "@left"] + ["STRING"] * n_ + [";"]))
    dres = hook.call({"op": "parse_many", "seqs": [d_[1] for d_ in deep]}).get("results", [])
    for (what, s_), r_ in zip(deep, dres + [None] * (len(deep) - len(dres))):
        if r_ is None or r_[0] != 0:
            deep_bad.append((what, s_, r_))
    # trees: the parser builds the tree the precedence list dictates
    tree_bad, n_tree = [], 0
    for s in valid_streams:
        d = D.dictated_tree(s, T)
        if d[0] != "ok":
            continue
        ra = hook.call({"op": "parse_trace", "mode": "ast", "tokens": [[k, "t%d" % i] for i, k in enumerate(s)]})
        if ra.get("tree") is None:
            tree_bad.append((s, "no tree", None))
            continue
        got = c18.convert_tree(T, ra["tree"], [0])
        n_tree += 1
        if got != d[1]:
            tree_bad.append((s, "different tree", {"built": got, "dictated": d[1]}))
    hook.close()
    # the classification of Cfg/EbnfDoc.v against the independent reader, inside the kernel: the dictated tree of every sampled
    # sentence is canonical and is what the model builds; sequences the documented reading rejects are rejected by the model
    ccases = []
    if ok:
        pool = [s for s in seqs if len(s) <= 400]
        rng.shuffle(pool)
        for s in greedy_seqs + valid_streams[: (120 if tier == "quick" else 1500)] + pool[: (400 if tier == "quick" else 6000)]:
            if any(k not in T.tidx for k in s):
                continue
            d = D.dictated_tree(s, T)
            ccases.append((s, d[1] if d[0] == "ok" else None))
        paths, offs = [], []
        shard = 150
        for o in range(0, len(ccases), shard):
            path = os.path.join(C.GEN, "cases_C04_%d.v" % (o // shard))
            with open(path, "w") as f:
                f.write(CANON_V % ";\n".join("(%s, %s)" % (C.coq_nat_list([T.tidx[k] for k in s]),
                                                           "Some (%s)" % c18.tree_term(t) if t is not None else "None") for s, t in ccases[o:o + shard]))
            paths.append(path)
            offs.append(o)
        cbad, cerr = [], None
        for (okc, out), o in zip(C.coqc_many(paths), offs):
            m = C.parse_mismatches(out) if okc else None
            if m is None:
                cerr = out[-1500:]
                break
            cbad.extend(o + x for x in m)
        rep.obligation("classification vs the independent reader: on %d token sequences (%d sentences) the dictated tree is canonical and is "
                       "what the model builds; rejected sequences are rejected (kernel-evaluated)"
                       % (len(ccases), sum(1 for _, t in ccases if t is not None)), cerr is None and not cbad)
        if cerr is not None:
            rep.violation("cases", {"theorem": "gen/cases_C04_*.v does not compile", "log": cerr}, no_input=True)
        for i in cbad[:3]:
            rep.failure("classification", {"classification"}, {"tokens": ccases[i][0], "dictated_tree": ccases[i][1],
                        "why": "the documented reading of this sequence and the tree classification of Cfg/EbnfDoc.v (or the model of the driver) disagree"})
    rep.cov["evaluations"] = len(seqs) + n_tree + len(ccases)
    rep.cov["distinct_nontrivial"] = n_acc
    rep.cov["rule"] = ("every (state, symbol) pair of the tables is covered by the kernel-checked table_iso; supporting test for claim 4: every "
                       "token sequence 'grammar IDENT' + up to %d further tokens over %d representative kinds, every sequence of up to 2 tokens "
                       "over all 22 kinds, token streams of generated specifications and deeply nested rule bodies; accept/reject compared with "
                       "an exact Earley recogniser of the documented grammar, trees with the recursive-descent builder of the dictated reading; "
                       "non-trivial = a sentence of the documented grammar" % (maxlen, len(REDUCED)))
    rep.cov["input_distribution"] = {"sequences": len(seqs), "sentences": n_acc, "trees_compared": n_tree, "sentences_rejected_by_greedy_reading": n_greedy}
    rep.cov["samples"] = [{"tokens": s, "result": r} for s, r in list(zip(seqs, results))[300:304]]
    rep.obligation("language: Parse accepts exactly the documented grammar as disambiguated on %d token sequences (recursive-descent reading, "
                   "cross-checked by Earley; %d sentences rejected because of greedy handles)" % (len(seqs), n_greedy), not lang_bad and not oracle_bad)
    for s in oracle_bad[:2]:
        rep.failure("oracle", {"oracle"}, {"tokens": s, "why": "the recursive-descent reading accepts a sequence that is not a sentence of the documented grammar"})
    rep.obligation("the verdict depends on the token kinds only: %d sequences spelled as text on one line, one token per line and with blank lines "
                   "get the same verdict" % (len(sample) + len(extra)), not layout_bad)
    for s_, sep, got, want in layout_bad[:2]:
        rep.failure("language", {"language-layout"}, {"tokens": s_, "input_text": sep.join(SPELL.get(k, k) for k in s_) + "\n", "accepted": got, "expected_accepted": want,
                                                      "why": "the same token kinds get another verdict in this layout"})
    rep.obligation("disambiguation: ParseAndBuildAST builds the dictated tree on %d sentences" % n_tree, not tree_bad)
    rep.obligation("deep and long sentences are accepted (%d sentences, up to %d tokens)" % (len(deep), max(len(d_[1]) for d_ in deep)), not deep_bad)
    for what, s_, r_ in deep_bad[:2]:
        rep.failure("deep", {"deep"}, {"what": what, "tokens_head": s_[:12], "tokens_length": len(s_), "parser": r_,
                                       "input_text": "grammar g;a=b" + "|b" * (len(s_) // 2) + ";" if "alternatives" in what else None,
                                       "why": "a sentence of the documented grammar (any depth, any length) is rejected"})

    for s, r, acc in lang_bad[:3]:
        rep.failure("language", {"language"}, {"tokens": s, "parser": r, "sentence_of_documented_grammar": acc})
    for s, why, d in tree_bad[:3]:
        rep.failure("tree", {"tree"}, {"tokens": s, "why": why, "detail": d})
    if (not rok or not ok) and not rep.violations:
        # the table is not the documented LALR(1) table (or regenerating it gives another file): search, guided by the table
        # itself, for a token sequence on which the parser and the documented reading disagree
        w = table_guided_search(T)
        if w is not None:
            rep.failure("language", {"language"}, w)
        elif not rok:
            rep.violation("regeneration", {"theorem": "regenerating parsing_table.go reproduces the checked-in file", "detail": detail}, no_input=True)
        else:
            rep.violation("proof", {"theorem": "Props/C04.v", "log": log[-2500:]}, no_input=True)
    return rep.finish()


def table_guided_search(T):
    """For every state of the CURRENT table a shortest token sequence that brings it on top of the stack; then that sequence
    followed by each token kind (and by the end of input): the first one on which the table's verdict (accept / position of the
    error) differs from the greedy recursive-descent reading of the documentation."""
    from collections import deque

    def feed(stack, a):
        st = list(stack)
        for _ in range(10000):
            act = T.action.get((st[-1], a))
            if act is None:
                return None
            k, p_ = act
            if k == "SHIFT":
                return st + [p_]
            if k == "REDUCE":
                head, body = T.prods[p_]
                if body:
                    del st[len(st) - len(body):]
                st.append(T.goto.get((st[-1], head), T.err_state))
            else:
                return None
        return None

    names = list(T.terms)
    seen, queue, reach = {0}, deque([([], [0])]), [([], [0])]
    tops = {}
    while queue:
        seq, st = queue.popleft()
        for k in names:
            st2 = feed(st, T.tidx[k])
            if st2 is None:
                continue
            key = tuple(st2[-3:])                 # the top of the stack (three states: enough to tell contexts apart)
            if key in seen or len(seq) >= 14:
                continue
            seen.add(key)
            queue.append((seq + [k], st2))
            reach.append((seq + [k], st2))

    def differs(seq):
        _tr, oc = T.run([T.tidx[k] for k in seq])
        rd = D.dictated_tree(seq, T)
        if oc == "accept":
            return None if rd[0] == "ok" else {"tokens": seq, "parser": "accepts", "documented_reading": "error at token %d" % rd[1]}
        if isinstance(oc, tuple):
            if rd[0] == "ok":
                return {"tokens": seq, "parser": "error at token %d" % oc[1], "documented_reading": "accepts"}
            if rd[1] != oc[1]:
                return {"tokens": seq, "parser": "error at token %d" % oc[1], "documented_reading": "error at token %d" % rd[1]}
        return None

    for seq, _st in reach:
        for tail in [[]] + [[k] for k in names] + [[k, ";"] for k in names]:
            w = differs(seq + tail)
            if w is not None:
                return w
    return None


def replay(path):
    d = json.load(open(path))
    if "tokens" not in d:
        print("replay names an obligation:", d.get("theorem"))
        return 1
    hook = C.Hook()
    r = hook.call({"op": "parse_many", "seqs": [d["tokens"]]})
    hook.close()
    acc, viable = D.doc_grammar().earley(d["tokens"])
    print("parser:", r.get("results"), "documented grammar: sentence =", acc)
    return 0 if (r["results"][0][0] == 0) == acc else 1
