"""C01 — the EBNF-to-grammar translation preserves the language of every rule."""
import json
import os

from . import common as C
from . import specfam as S
from . import regexfam as R
from . import lrfam as L
from . import c05

PROP = "C01"

CASES_V = """(* GENERATED: correspondence cases for C01 — productions spec.Parse derived for generated specifications *)
From Coq Require Import String List Bool NArith.
From Verif Require Import Reg.MaxMunch Cfg.Ebnf Cfg.Translate Emerge.SpecModel Emerge.Pipeline.
Import ListNotations.
Local Open Scope N_scope.
Local Open Scope string_scope.
Definition seteq_prods (a b : list (string * sstr)) : bool :=
  forallb (fun p => pmem p b) a && forallb (fun p => pmem p a) b.
(* the model derives the same production set as the implementation *)
Definition agrees (c : list N * list (string * sstr)) : bool :=
  match front (fst c) with
  | FSpec _ ds => seteq_prods (s_prods (translate_spec ds)) (snd c)
  | _ => false
  end.
(* the decidable premise of the language theorem holds *)
Definition premise (c : list N * list (string * sstr)) : bool :=
  match front (fst c) with
  | FSpec _ ds => spec_pure_ok ds
  | _ => true
  end.
Definition cases : list (list N * list (string * sstr)) := [
%s
].
Definition M := Eval vm_compute in mismatches agrees 0 cases.
Print M.
Definition K := Eval vm_compute in mismatches premise 0 cases.
Print K.
"""


def regen_all():
    c05.regen()
    R.regen()
    L.regen()


def check(tier):
    rep = C.Report(PROP, tier, "proof")
    rng = C.rng_for(PROP)
    try:
        regen_all()
    except C.BuildError as e:
        rep.obligation("translate sources", False)
        rep.violation("translator", {"theorem": "generated tables cannot be regenerated", "detail": str(e)}, no_input=True)
        return rep.finish()
    # the names the symbol table gives to punctuation terminals must tell them apart: two literals with one name share their
    # synthesised non-terminals.  (Known finding D2 is about names shared with USER identifiers, which this table cannot avoid.)
    from . import regexfam as RF
    tn = {k: v for k, v in RF.translate_misc().get("terminal_names", {}).items()}
    byname = {}
    for k, v in sorted(tn.items()):
        byname.setdefault(v, []).append(k)
    clashes = [ks for ks in byname.values() if len(ks) > 1]
    rep.obligation("the table of terminal names is one-to-one (%d entries)" % len(tn), not clashes)
    for ks in clashes[:2]:
        lit = lambda x: json.dumps(x)
        text = 'grammar t; start = [%s] "x" [%s];\n' % (lit(ks[0]), lit(ks[1]))
        r = C.hook_batch([{"op": "spec", "text": text}])[0]
        wit = language_witness(text, r["spec"]["productions"]) if r.get("outcome") == "ok" and r.get("spec") else None
        rep.failure("terminal-names", {"terminal-names"}, dict({"input_text": text, "literals": ks, "shared_name": tn[ks[0]],
                    "why": "two different literals get the same name, hence the same synthesised non-terminals"}, **(wit or {})), no_input=wit is None)
    ok, log = C.coq_make(["theories/Props/C01.vo"])
    for t in ["translation_preserves_language", "model_preserves_language", "model_production_set_is_the_specified_one",
              "emerge_translation_preserves_language", "premise_holds_somewhere", "name_collision_refuted"]:
        rep.obligation("Props/C01.v: " + t, ok)
    rep.cov["print_assumptions"] = "Closed under the global context x%d" % log.count("Closed under the global context") if ok else "n/a"
    rep.cov["partial"] = ["name_collision_refuted (known finding D2): the theorem carries the decidable premise pure_ok"]

    texts = [json.loads(l)["text"] for l in open(os.path.join(C.VERIF, "corpus", "C01.jsonl"))] if os.path.exists(os.path.join(C.VERIF, "corpus", "C01.jsonl")) else []
    texts += S.exhaustive_small() if tier != "quick" else S.exhaustive_small()[::3]
    # two different sub-expressions, each under two different operators, in both orders: a synthesised name that is shared by
    # mistake between the two shows in the LANGUAGE (one pair alone only shows in the names)
    wrap = {"g": "(%s)", "o": "[%s]", "s": "{%s}", "p": "{{%s}}"}
    for o1 in "gosp":
        for o2 in "gosp":
            if o1 != o2:
                texts.append('grammar g; start = %s %s "z" %s %s; aa = "a"; bb = "b";\n'
                             % (wrap[o1] % "aa", wrap[o2] % "aa", wrap[o1] % "bb", wrap[o2] % "bb"))
                texts.append('grammar g; start = %s %s "z" %s %s;\n'
                             % (wrap[o1] % '"a" | "c"', wrap[o2] % '"a" | "c"', wrap[o1] % '"b"', wrap[o2] % '"b"'))
    for _ in range(120 if tier == "quick" else 4000):
        texts.append(S.gen_wellformed(rng))
    texts = [t for t in dict.fromkeys(texts) if S.printable(t)]
    res = C.hook_map([{"op": "spec", "text": t} for t in texts], timeout_each=20)
    cases, dist = [], {"accepted": 0, "rejected": 0, "other": 0}
    for t, r in zip(texts, res):
        if r.get("outcome") == "ok" and r.get("spec"):
            dist["accepted"] += 1
            cases.append((t, r["spec"]["productions"]))
        elif r.get("outcome") == "error":
            dist["rejected"] += 1
        else:
            dist["other"] += 1
            rep.failure("crash", {"crash"}, {"input_text": t, "outcome": r})
    paths, offs = [], []
    shard = 40
    for o in range(0, len(cases), shard):
        path = os.path.join(C.GEN, "cases_C01_%d.v" % (o // shard))
        with open(path, "w") as f:
            f.write(CASES_V % ";\n".join("(%s, %s)" % (C.coq_nat_list(C.codepoints(t)), S.prods_term(p)) for t, p in cases[o:o + shard]))
        paths.append(path)
        offs.append(o)
    bad, known, cerr = [], [], None
    for (okc, out), o in zip(C.coqc_many(paths, timeout=900), offs):
        m = C.parse_mismatches(out) if okc else None
        k = C.parse_mismatches(out, "K") if okc else None
        if m is None or k is None:
            cerr = out
            break
        bad.extend(o + x for x in m)
        known.extend(o + x for x in k)
    rep.cov["evaluations"] = len(cases)
    rep.cov["distinct_nontrivial"] = sum(1 for t, p in cases if any(ch in t for ch in "[{("))
    rep.cov["rule"] = ("well-formed specifications: every small body under every pair of operators (shared memo entry), random bodies to "
                       "depth 3 with re-used sub-expressions, names from a pool containing plus, star, gen1_star, gen_x_opt, gen_plus_star; "
                       "for each accepted one the production SET of spec.Parse is compared with the Coq model of the symbol table and the "
                       "decidable premise of the language theorem is evaluated by the kernel; non-trivial = uses an extended operator")
    rep.cov["input_distribution"] = dict(dist, premise_fails=len(known))
    rep.cov["samples"] = [{"text": t, "productions": len(p)} for t, p in cases[3:7]]
    if cerr is not None:
        rep.obligation("correspondence cases compile", False)
        if ok:
            rep.violation("cases", {"theorem": "gen/cases_C01_*.v does not compile", "log": cerr[-3000:]}, no_input=True)
        return rep.finish()
    rep.obligation("correspondence: productions of spec.Parse == Coq symbol-table model on %d specifications" % len(cases), not bad)
    kf = rep.match_known({"synthesised-name-collision"})
    certified = len(cases) - len(set(bad) | set(known))
    rep.obligation("language theorem premise evaluated: %d specifications certified (premise fails on %d: known finding D2)"
                   % (certified, len(known)), kf is not None or not known)
    for i in known:
        if kf is not None:
            rep.known_finding(kf)
    if known and kf is None:
        t, p = cases[known[0]]
        wit = language_witness(t, p)
        rep.violation("language", dict({"input_text": t, "what_fails": "synthesised names collide; the derived grammar does not preserve the language"}, **(wit or {})),
                      no_input=wit is None)
    if known:
        rep.cov["known_finding_D2_examples"] = [cases[i][0] for i in known[:4]]
    ranked = []
    for i in bad[:60]:
        t, p = cases[i]
        ranked.append((language_witness(t, p), t, p))
    ranked.sort(key=lambda x: (x[0] is None, len(x[1])))
    for wit, t, p in ranked[:3]:
        payload = {"input_text": t, "observed_productions": p,
                   "note": "the production set differs from the model of the symbol table"}
        if wit:
            payload.update(wit)
        rep.failure("productions", {"productions"}, payload, no_input=wit is None)
    if not ok and not rep.violations:
        rep.violation("proof", {"theorem": "Props/C01.v", "log": log[-2500:]}, no_input=True)
    return rep.finish()


# ------------------------------------------------------------------ search: a sentence on which grammar and EBNF differ

def ebnf_sentences(text, maxlen=5):
    """Sentences (as tuples of terminal names) of every user rule up to maxlen, computed from the EBNF text itself
    by a small independent evaluator (least fixed point over bounded lengths)."""
    import re
    from . import docgrammar as D
    toks = re.findall(r'"(?:[^"\\]|\\.)*"|\{\{|\}\}|[A-Za-z_][A-Za-z_0-9]*|\$[A-Z]+|/(?:[^/\\]|\\.)*/|@[a-z]+|[=;|()\[\]{}<>]', text)
    rules = {}
    i = 0
    n = len(toks)

    def parse_alt(j):
        alts = []
        cur, j = parse_cat(j)
        alts.append(cur)
        while j < n and toks[j] == "|":
            j += 1
            if j < n and (toks[j] in ("(", "[", "{", "{{") or toks[j][0] in '"' or toks[j][0].isalpha()):
                cur, j = parse_cat(j)
                alts.append(cur)
            else:
                alts.append(("eps",))
        return ("alt", alts), j

    def parse_cat(j):
        items = []
        while j < n and (toks[j] in ("(", "[", "{", "{{") or toks[j][0] == '"' or (toks[j][0].isalpha())):
            t = toks[j]
            if t in ("(", "[", "{", "{{"):
                close = {"(": ")", "[": "]", "{": "}", "{{": "}}"}[t]
                inner, j = parse_alt(j + 1)
                if j >= n or toks[j] != close:
                    raise ValueError("unbalanced")
                j += 1
                items.append(({"(": "grp", "[": "opt", "{": "star", "{{": "plus"}[t], inner))
            elif t[0] == '"':
                items.append(("t", t[1:-1]))
                j += 1
            elif t.isupper() or (t[0].isupper()):
                items.append(("t", t))
                j += 1
            else:
                items.append(("n", t))
                j += 1
        return ("cat", items), j
    # skip "grammar name [;]"
    j = 2
    if j < n and toks[j] == ";":
        j += 1
    while j < n:
        t = toks[j]
        if t.startswith("@"):
            j += 1
            while j < n and toks[j] != ";" and not (j + 1 < n and toks[j + 1] == "=" and toks[j] != "<"):
                if toks[j] == "<":
                    while toks[j] != ">":
                        j += 1
                j += 1
            if j < n and toks[j] == ";":
                j += 1
        elif j + 1 < n and toks[j + 1] == "=" and t[0].isupper():
            j += 3
            if j < n and toks[j] == ";":
                j += 1
        elif j + 1 < n and toks[j + 1] == "=":
            if j + 2 < n and toks[j + 2] == ";":
                rules.setdefault(t, []).append(("alt", [("eps",)]))
                j += 3
            else:
                body, j2 = parse_alt(j + 2)
                rules.setdefault(t, []).append(body)
                j = j2 + 1
        else:
            raise ValueError("cannot read spec at %r" % toks[j:j + 4])
    lang = {A: set() for A in rules}

    def ev(e):
        k = e[0]
        if k == "eps":
            return {()}
        if k == "t":
            return {(e[1],)}
        if k == "n":
            return set(lang.get(e[1], set()))
        if k == "alt":
            out = set()
            for a in e[1]:
                out |= ev(a)
            return out
        if k == "cat":
            out = {()}
            for it in e[1]:
                s = ev(it)
                out = {u + v for u in out for v in s if len(u) + len(v) <= maxlen}
            return out
        inner = ev(e[1])
        if k == "grp":
            return inner
        if k == "opt":
            return inner | {()}
        acc = {()} if k == "star" else set(inner)
        frontier = set(acc)
        while True:
            new = {u + v for u in frontier for v in inner if len(u) + len(v) <= maxlen} - acc
            if not new:
                break
            acc |= new
            frontier = new
        if k == "plus":
            acc = {u + v for u in (acc | {()}) for v in inner if len(u) + len(v) <= maxlen} | set(inner)
        return acc
    changed = True
    while changed:
        changed = False
        for A, bodies in rules.items():
            for b in bodies:
                s = ev(b)
                if not s <= lang[A]:
                    lang[A] |= s
                    changed = True
    return lang


def cfg_sentences(prods, maxlen=5):
    lang = {}
    heads = {p["head"] for p in prods}
    for h in heads:
        lang[h] = set()
    changed = True
    while changed:
        changed = False
        for p in prods:
            out = {()}
            for k, x in p["body"]:
                s = {(x,)} if k == "t" else lang.get(x, set())
                out = {u + v for u in out for v in s if len(u) + len(v) <= maxlen}
            if not out <= lang[p["head"]]:
                lang[p["head"]] |= out
                changed = True
    return lang


def language_witness(text, prods, maxlen=5):
    try:
        e = ebnf_sentences(text, maxlen)
    except Exception:
        return None
    g = cfg_sentences(prods, maxlen)
    for A in sorted(e):
        ga = g.get(A, set())
        d = sorted((e[A] ^ ga), key=lambda w: (len(w), w))
        if d:
            w = d[0]
            return {"rule": A, "sentence": list(w), "denoted_by_ebnf": w in e[A], "derived_by_grammar": w in ga}
    return None


def replay(path):
    d = json.load(open(path))
    if "input_text" not in d:
        print("replay names an obligation:", d.get("theorem"))
        return 1
    r = C.hook_batch([{"op": "spec", "text": d["input_text"]}])[0]
    if r.get("outcome") != "ok":
        print("spec.Parse now:", r.get("error"))
        return 1
    wit = language_witness(d["input_text"], r["spec"]["productions"])
    print("language difference now:", wit)
    return 1 if wit else 0
