"""C10 — the direct (followpos) pattern-to-DFA construction agrees with the NFA route and with the documented meaning."""
import json
import os

from . import common as C
from . import regexfam as R
from . import c02

PROP = "C10"

NULLABLE_SHAPES = ["a*", "a?", "a*b*", "a?b?", "(a|b)*", "ab?c", "a?b?c", "ab*c*d", "(a*)*", "(a?)+", "a{0}", "a{0,2}", "a{0}b", "(ab){0,2}c",
                   "(a|)", "(a|b?)c", "a*|b", "(a*b*)*", "(a?b)*a?", "x(a?b?)+y", "a{2}", "a{1,3}b", "(a{1,2}){2}", "(a*){2,3}", "a{0,1}b{0,1}",
                   "(a|b)*abb", "(ab|a)(c|bcd)", "a+b+", "(a+)?b", "[ab]*c?", "a?a?a?aaa"]


def followpos_shapes(tier):
    """Several positions that can end an operand (loops, options, alternatives), followed by an operand that can begin with m
    different positions, m = 1..16: the follow sets of all the former receive the same first set (every size of that set)."""
    heads = ["(a*|b*)", "(a*|b)", "(a|b)*", "a?b?", "(ab|a)*", "(a?|b)"] if tier != "quick" else ["(a*|b*)", "(a*|b)", "a?b?"]
    sizes = range(1, 17) if tier != "quick" else [1, 2, 3, 4, 5, 6, 7, 8, 9, 11, 13, 15, 16]
    out = []
    for h in heads:
        for m in sizes:
            cls = "[" + "".join(chr(ord("c") + i) for i in range(m)) + "]"
            out.append(h + cls + "z")
            if tier != "quick":
                out.append(h + cls + "*z")
                out.append(h + "(" + "|".join(chr(ord("c") + i) for i in range(m)) + ")z")
    return out


def quantified_nullable_groups(tier):
    """Every quantifier applied to a group that can already match the empty text, alone and between two characters."""
    inners = ["(a*)", "(a|b*)", "(a?b?)", "(a{0,2})", "(a*b*)", "(a|)", "((a*)?)", "(a?|b)"]
    quants = R.QUANTS[1:] if tier != "quick" else ["?", "*", "+", "{0,1}", "{2}", "{0,2}", "{1,2}"]
    out = []
    for g in inners:
        for q in quants:
            out.append(g + q)
            out.append("x" + g + q + "y")
            if tier != "quick":
                out.append(g + q + "b")
                out.append("c" + g + q)
    return out


def loops_over_nullable_bodies(tier):
    """A repetition around a body that can match the empty text (its follow lists name a position more than once), followed by
    a tail that needs positions beyond the loop: the subset construction must tell apart position sets that include one another."""
    bodies = ["a*b?", "a?b*", "a*b*", "a*|b", "b*(ac(a)?)*", "(b)*|ba", "a?b?c?", "a|b?", "a*b?c*"]
    loops = ["*", "+", "{2}", "{1,2}"] if tier != "quick" else ["*", "+"]
    tails = ["bb", "ab", "abb", "b", "ca", ""] if tier != "quick" else ["bb", "ab", "b", "ca"]
    return ["(%s)%s%s" % (b, l, t) for b in bodies for l in loops for t in tails]


PREFIX_ALTERNATIONS = ["a|ab", "ab|a", "=|==", "[a-z]+|if", "if|[a-z]+", "a|ab|abc", "abc|ab|a", "(a|ab)c", "(a|ab)*", "x(a|ab|b)y", "a?|ab", "a|a*b",
                       "(a|ab)(c|bcd)", "0|0x[0-9]+", "[0-9]+|[0-9]+\\.[0-9]+"]


def patterns_for(tier, rng):
    pats = R.corpus(PROP) + NULLABLE_SHAPES + PREFIX_ALTERNATIONS + followpos_shapes(tier) + quantified_nullable_groups(tier) + loops_over_nullable_bodies(tier) + list(R.EVERY_CONSTRUCT)
    pats += R.small_exhaustive() if tier != "quick" else R.small_exhaustive()[::3]
    n = 120 if tier == "quick" else 2500
    for _ in range(n):
        pats.append(R.gen_tree(rng, rng.randint(1, 4)))
    seen, out = set(), []
    for p in pats:
        if p not in seen and "\x00" not in p and len(p) < 60:
            seen.add(p)
            out.append(p)
    return out


def check(tier):
    rep = C.Report(PROP, tier, "proof")
    rng = C.rng_for(PROP)
    try:
        R.regen()
    except C.BuildError as e:
        rep.obligation("translate regex tables", False)
        rep.violation("translator", {"theorem": "gen/RuneGo.v cannot be regenerated", "detail": str(e)}, no_input=True)
        return rep.finish()
    ok, log = C.coq_make(["theories/Props/C10.vo"])
    for t in ["three_way_agreement", "three_way_agreement_guarded", "position_automaton_examples"]:
        rep.obligation("Props/C10.v: " + t, ok)
    rep.cov["print_assumptions"] = "Closed under the global context x%d" % log.count("Closed under the global context") if ok else "n/a"

    pats = patterns_for(tier, rng)
    res = C.hook_map([{"op": "regex", "pattern": p} for p in pats], timeout_each=10)
    cases = []
    dist = {"accepted": 0, "syntax": 0, "semantic": 0, "other": 0, "routes_disagree_on_outcome": 0, "too_slow_skipped": 0}
    outcome_diff = []
    for p, r in zip(pats, res):
        if r.get("outcome") == "slow":
            dist["too_slow_skipped"] += 1
            continue
        a, n = r.get("ast", {}), r.get("nfa", {})
        ca, cn = R.impl_code(a), R.impl_code(n)
        if ca != cn:
            dist["routes_disagree_on_outcome"] += 1
            outcome_diff.append((p, ca, cn))
        autos = []
        if ca == 0:
            autos.append(a["dfa"])
        if cn == 0 and n.get("reindexed"):
            autos.append(n["reindexed"])
        dist[["accepted", "syntax", "semantic", "other"][ca]] += 1
        cases.append((p, ca, autos))
    bad, out = R.run_case_file("cases_C10", cases)
    rep.cov["evaluations"] = len(cases)
    rep.cov["undecided_slow_patterns"] = [cases[i][0] for i in R.LAST.get("slow", [])][:10]
    rep.cov["programs"] = sum(len(c[2]) for c in cases)
    rep.cov["distinct_nontrivial"] = sum(1 for p, code, a in cases if code == 0 and any(ch in p for ch in "?*{|"))
    rep.cov["rule"] = ("patterns = corpus + shapes with nullable operands / empty-matching patterns / duplicated sub-expressions + every construct "
                       "+ small exhaustive family over {a,b} + random trees; each accepted pattern contributes the followpos automaton and the "
                       "NFA-route automaton, each certified equal to the model for ALL strings (hence to each other); non-trivial = uses ? * {} or |")
    rep.cov["input_distribution"] = dist
    rep.cov["samples"] = [{"pattern": p, "impl": code, "automata": len(a)} for p, code, a in cases[3:9]]
    if bad is None:
        rep.obligation("instance file compiles", False)
        rep.violation("cases", {"theorem": "gen/cases_C10_*.v does not compile", "log": out[-3000:]}, no_input=True)
        return rep.finish()
    # patterns with a NUL-containing set: the NFA route treats NUL as epsilon, the followpos route as a character;
    # the routes then differ (known finding D3); such patterns are not judged here
    known_idx = list(R.LAST["known"])
    bad = [i for i in bad if i not in set(known_idx)]
    rep.obligation("three-way certified instances on the %d patterns outside known finding D3 (%d automata in all)"
                   % (len(cases) - len(known_idx), rep.cov["programs"]), not bad)
    rep.cov["disagreements_checked"] = len(bad)
    k = rep.match_known({"pattern-set-contains-nul"})
    if known_idx and k is not None:
        for _ in known_idx:
            rep.known_finding(k)
    elif known_idx:
        i = known_idx[0]
        rep.violation("language", {"pattern": cases[i][0], "what_fails": "a set of the pattern contains NUL (epsilon of the automata library)"})
    for p, ca, cn in outcome_diff[:3]:
        rep.failure("outcome", {"routes-outcome"}, {"pattern": p, "ast_route": ca, "nfa_route": cn,
                                                    "note": "0 accepted, 1 syntax, 2 semantic, 3 panic/other"})
    found = False
    if bad:
        found = c02.explain(rep, [cases[i] for i in bad], route="ast", prop=PROP)
    if not ok and not found and not rep.violations:
        rep.violation("proof", {"theorem": "Props/C10.v", "log": log[-2500:]}, no_input=True)
    return rep.finish()


def replay(path):
    d = json.load(open(path))
    if "route" not in d:
        d["route"] = "ast"
    with open(path + ".tmp", "w") as f:
        json.dump(d, f)
    try:
        return c02.replay(path + ".tmp")
    finally:
        os.unlink(path + ".tmp")
