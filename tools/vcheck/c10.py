"""C10 — the direct (followpos) pattern-to-DFA construction agrees with the NFA route and with the documented meaning."""
import json
import os

from . import common as C
from . import regexfam as R
from . import c02

PROP = "C10"

NULLABLE_SHAPES = ["a*", "a?", "a*b*", "a?b?", "(a|b)*", "ab?c", "a?b?c", "ab*c*d", "(a*)*", "(a?)+", "a{0}", "a{0,2}", "a{0}b", "(ab){0,2}c",
                   "(a|)", "(a|b?)c", "a*|b", "(a*b*)*", "(a?b)*a?", "x(a?b?)+y", "a{2}", "a{1,3}b", "(a{1,2}){2}", "(a*){2,3}", "a{0,1}b{0,1}",
                   "(a|b)*abb", "(ab|a)(c|bcd)", "a+b+", "(a+)?b", "[ab]*c?", "a?a?a?aaa"]


def followpos_shapes(tier):
    """Several positions that can end an operand (loops, options, alternatives), followed by an operand that can begin with m
    different positions, m = 1..16: the follow sets of all the former receive the same first set (every size of that set)."""
    heads = ["(a*|b*)", "(a*|b)", "(a|b)*", "a?b?", "(ab|a)*", "(a?|b)"] if tier != "quick" else ["(a*|b*)", "(a*|b)", "a?b?"]
    sizes = range(1, 17) if tier != "quick" else [1, 2, 3, 4, 5, 6, 7, 8, 9, 11, 13, 15, 16]
    out = []
    for h in heads:
        for m in sizes:
            cls = "[" + "".join(chr(ord("c") + i) for i in range(m)) + "]"
            out.append(h + cls + "z")
            if tier != "quick":
                out.append(h + cls + "*z")
                out.append(h + "(" + "|".join(chr(ord("c") + i) for i in range(m)) + ")z")
    return out


def quantified_nullable_groups(tier):
    """Every quantifier applied to a group that can already match the empty text, alone and between two characters."""
    inners = ["(a*)", "(a|b*)", "(a?b?)", "(a{0,2})", "(a*b*)", "(a|)", "((a*)?)", "(a?|b)"]
    quants = R.QUANTS[1:] if tier != "quick" else ["?", "*", "+", "{0,1}", "{2}", "{0,2}", "{1,2}"]
    out = []
    for g in inners:
        for q in quants:
            out.append(g + q)
            out.append("x" + g + q + "y")
            if tier != "quick":
                out.append(g + q + "b")
                out.append("c" + g + q)
    return out


def loops_over_nullable_bodies(tier):
    """A repetition around a body that can match the empty text (its follow lists name a position more than once), followed by
    a tail that needs positions beyond the loop: the subset construction must tell apart position sets that include one another."""
    bodies = ["a*b?", "a?b*", "a*b*", "a*|b", "b*(ac(a)?)*", "(b)*|ba", "a?b?c?", "a|b?", "a*b?c*"]
    loops = ["*", "+", "{2}", "{1,2}"] if tier != "quick" else ["*", "+"]
    tails = ["bb", "ab", "abb", "b", "ca", ""] if tier != "quick" else ["bb", "ab", "b", "ca"]
    return ["(%s)%s%s" % (b, l, t) for b in bodies for l in loops for t in tails]


def many_positions(tier):
    """Patterns with 10 to 40 positions: a loop or an option in front (small position numbers in one state) and a long tail (two-digit
    numbers in another), loops in the middle and at the end."""
    tails = ["cdefghijklmn", "cdefghijklmnopqrstuvwx", "cdefgh(ij)*klmn", "cdefghijk[lm]n?"]
    heads = ["(ab)*", "a?b?", "(a|b)*", "(ab|a)", "a*b*"]
    out = [h + t for h in heads for t in tails]
    out += ["abcdefghij(k|l)*mnopq", "(abcdefghijkl)*m", "a(bcdefghijk)?(lmnopqrst)?u", "(a|b|c|d|e|f|g|h|i|j|k|l)+m"]
    return out if tier != "quick" else out[::2] + out[-4:]


PREFIX_ALTERNATIONS = ["a|ab", "ab|a", "=|==", "[a-z]+|if", "if|[a-z]+", "a|ab|abc", "abc|ab|a", "(a|ab)c", "(a|ab)*", "x(a|ab|b)y", "a?|ab", "a|a*b",
                       "(a|ab)(c|bcd)", "0|0x[0-9]+", "[0-9]+|[0-9]+\\.[0-9]+"]


FP_V = """(* GENERATED: the direct route's syntax tree, its nullable / firstpos / lastpos / followpos and its automaton, as dumped from
   internal/regex/parser/ast, against the model of Reg/Followpos.v (positions one-based as in the implementation) *)
From Coq Require Import List Bool NArith.
From Verif Require Import Base.CharSet Reg.Dfa Reg.Regex Reg.EquivCheck Reg.Followpos Reg.FollowposRe Reg.FollowposQuant Reg.FollowposPat Reg.MaxMunch.
From Verif Require Import Reg.Pattern Reg.PatSem Reg.PatCheck.
From VerifGen Require Import RuneGo.
Import ListNotations.
Local Open Scope N_scope.
Definition fp_case := (list N * node * N * bool * list nat * list nat * list (nat * list nat) * (dfa * list N))%%type.
Definition model := PatCheck.model escaped ascii_names uni_cats cls_letters rune_classes.
(* 1: the end marker occurs in the tree; 2: a table differs from the model; 3: the automaton is not the position automaton;
   4: the tree is not the tree of the pattern (model of the parser and of the mappers, modulo nesting and order of alternatives) *)
Definition verdict (c : fp_case) : N :=
  let '(p, r, em, nul, f, l, fol, (d, fin)) := c in
  if existsb (N.eqb em) (chars r) then 1
  else if negb (tables_agree r em nul f l fol) then 2
  else if negb (dfa_re_check d fin (re_of r) (N.to_nat 100000)) then 3
  else match model p with
       | MOk t _ => if same_tree (tree_of (ast_regex rune_classes t)) r then 0 else 4
       | _ => 4
       end.
Definition agrees (c : fp_case) : bool := verdict c =? 0.
Definition cases : list fp_case := [
%s
].
Definition M := Eval vm_compute in mismatches agrees 0 cases.
Print M.
"""


def fp_node(t):
    k = t[0]
    if k == "char":
        return "NChar %d" % t[1]
    if k == "empty":
        return "NEmpty"
    if k == "star":
        return "NStar (%s)" % fp_node(t[1])
    if k in ("cat", "alt"):
        out = "NNil"
        for c in reversed(t[1:]):
            out = "NCons (%s) (%s)" % (fp_node(c), out)
        return "%s (%s)" % ("NCat" if k == "cat" else "NAlt", out)
    raise ValueError("unknown node %r" % (k,))


def fp_positions(t, acc):
    if t[0] == "char":
        acc.append(t[2])
    elif t[0] in ("cat", "alt", "star"):
        for c in t[1:]:
            fp_positions(c, acc)
    return acc


def fp_case(a, pattern=""):
    """Coq term for one dump of the direct route; None with a reason if the dump is not a tree numbered left to right."""
    tree = a["tree"]
    if not (tree[0] == "cat" and len(tree) == 3 and tree[2][0] == "char" and tree[2][1] == a["end_marker"]):
        return None, "the root is not (r) followed by the end marker"
    pos = fp_positions(tree, [])
    if pos != list(range(1, len(pos) + 1)) or len(pos) != a["positions"]:
        return None, "character leaves are not numbered 1..n from left to right (a leaf is shared or skipped): %r" % (pos[:40],)
    nat = lambda l: "[" + "; ".join(str(x) for x in l) + "]%nat"
    fol = "[" + "; ".join("(%s, %s)" % (k, "[" + "; ".join(str(x) for x in v) + "]") for k, v in sorted(a["follows"].items(), key=lambda kv: int(kv[0]))) + "]%nat"
    d = a["dfa"]
    dfa = "({| d_start := %d; d_edges := [%s] |}, [%s])" % (d["start"], "; ".join("(%d,%d,%d,%d)" % tuple(e) for e in d["trans"]),
                                                          "; ".join(str(x) for x in d["finals"]))
    return "(%s, %s, %d, %s, %s, %s, %s, %s)" % (R.nl(C.codepoints(pattern)), fp_node(tree[1]), a["end_marker"], "true" if a["nullable"] else "false",
                                             nat(a["first"]), nat(a["last"]), fol, dfa), None


QUANT_V = """(* GENERATED: quantifyNode - the tree of X followed by a quantifier vs the model applied to the tree of X *)
From Coq Require Import List Bool NArith.
From Verif Require Import Reg.Followpos Reg.FollowposQuant Reg.MaxMunch.
Import ListNotations.
Local Open Scope N_scope.
Definition agrees (c : node * quant * node) : bool := let '(x, q, xq) := c in quantified_as_modelled x q xq.
Definition cases : list (node * quant * node) := [
%s
].
Definition M := Eval vm_compute in mismatches agrees 0 cases.
Print M.
"""

QUANT_ATOMS = ["a", "(ab)", "(a|b)", "[ab]", "(a*)", "(a?)", "(a?b)", "((a|b)c)", "\\+", "(a{2})", "(a|b|c)"]
QUANT_FORMS = [("?", "QOpt"), ("*", "QStar"), ("+", "QPlus"), ("{0}", "QRange 0 (Some 0%nat)"), ("{1}", "QRange 1 (Some 1%nat)"),
               ("{3}", "QRange 3 (Some 3%nat)"), ("{0,}", "QRange 0 None"), ("{2,}", "QRange 2 None"), ("{0,1}", "QRange 0 (Some 1%nat)"),
               ("{0,3}", "QRange 0 (Some 3%nat)"), ("{1,2}", "QRange 1 (Some 2%nat)"), ("{2,5}", "QRange 2 (Some 5%nat)")]


def patterns_for(tier, rng):
    pats = R.corpus(PROP) + NULLABLE_SHAPES + PREFIX_ALTERNATIONS + followpos_shapes(tier) + quantified_nullable_groups(tier) + loops_over_nullable_bodies(tier) + many_positions(tier) + list(R.EVERY_CONSTRUCT) + list(R.EDGE_BLANKS)
    pats += R.small_exhaustive() if tier != "quick" else R.small_exhaustive()[::3]
    n = 120 if tier == "quick" else 2500
    for _ in range(n):
        pats.append(R.gen_tree(rng, rng.randint(1, 4)))
    seen, out = set(), []
    for p in pats:
        if p not in seen and "\x00" not in p and len(p) < 60:
            seen.add(p)
            out.append(p)
    return out


def check(tier):
    rep = C.Report(PROP, tier, "proof")
    rng = C.rng_for(PROP)
    try:
        R.regen()
    except C.BuildError as e:
        rep.obligation("translate regex tables", False)
        rep.violation("translator", {"theorem": "gen/RuneGo.v cannot be regenerated", "detail": str(e)}, no_input=True)
        return rep.finish()
    ok, log = C.coq_make(["theories/Props/C10.vo"])
    for t in ["three_way_agreement", "three_way_agreement_guarded", "position_automaton_examples", "position_automaton_accepts_exactly_the_language",
              "tree_language_is_its_expression", "checked_automaton_is_the_position_automaton_of_its_tree", "followpos_example",
              "quantified_tree_denotes_the_documented_repetition", "quantify_example", "tree_of_a_pattern_denotes_its_documented_meaning",
              "direct_route_is_the_documented_meaning_of_the_pattern", "accumulated_follow_table_is_followpos", "nullable_iff_the_empty_string_is_matched"]:
        rep.obligation("Props/C10.v: " + t, ok)
    rep.cov["print_assumptions"] = "Closed under the global context x%d" % log.count("Closed under the global context") if ok else "n/a"

    pats = patterns_for(tier, rng)
    res = C.hook_map([{"op": "regex", "pattern": p} for p in pats], timeout_each=10)
    cases = []
    dist = {"accepted": 0, "syntax": 0, "semantic": 0, "other": 0, "routes_disagree_on_outcome": 0, "too_slow_skipped": 0}
    outcome_diff = []
    for p, r in zip(pats, res):
        if r.get("outcome") == "slow":
            dist["too_slow_skipped"] += 1
            continue
        a, n = r.get("ast", {}), r.get("nfa", {})
        ca, cn = R.impl_code(a), R.impl_code(n)
        if ca != cn:
            dist["routes_disagree_on_outcome"] += 1
            outcome_diff.append((p, ca, cn))
        autos = []
        if ca == 0:
            autos.append(a["dfa"])
        if cn == 0 and n.get("reindexed"):
            autos.append(n["reindexed"])
        dist[["accepted", "syntax", "semantic", "other"][ca]] += 1
        cases.append((p, ca, autos))
    # ---- the direct route from the inside: tree, nullable / firstpos / lastpos / followpos and automaton vs Reg/Followpos.v
    fp_pats = [p for p, code, _ in cases if code == 0]
    fp_res = C.hook_map([{"op": "regex_ast", "pattern": p} for p in fp_pats], timeout_each=10)
    fp_cases, fp_meta, fp_shape = [], [], []
    for p, r in zip(fp_pats, fp_res):
        a = r.get("ast", {})
        if r.get("outcome") != "ok" or a.get("outcome") != "ok" or a.get("positions", 0) > 160:
            continue
        term, why = fp_case(a, p)
        if term is None:
            fp_shape.append((p, why))
            continue
        fp_cases.append(term)
        fp_meta.append((p, a))
    fp_bad, fp_err, fp_slow = [], None, 0
    fshard = 40
    fpaths = []
    for o in range(0, len(fp_cases), fshard):
        path = os.path.join(C.GEN, "cases_C10fp_%d.v" % (o // fshard))
        with open(path, "w") as f:
            f.write(FP_V % ";\n".join(fp_cases[o:o + fshard]))
        fpaths.append(path)
    for (okc, outc), o in zip(C.coqc_many(fpaths, 600), range(0, len(fp_cases), fshard)):
        if not okc and not outc.strip():
            fp_slow += min(fshard, len(fp_cases) - o)
            continue
        m = C.parse_mismatches(outc) if okc else None
        if m is None:
            fp_err = outc
            break
        fp_bad.extend(o + x for x in m)
    # ---- quantifyNode: tree(X q) == quantify(tree(X), q) for every atom and every quantifier form
    q_reqs = [{"op": "regex_ast", "pattern": x} for x in QUANT_ATOMS] + [{"op": "regex_ast", "pattern": x + q} for x in QUANT_ATOMS for q, _ in QUANT_FORMS]
    q_res = C.hook_map(q_reqs, timeout_each=10)
    tree_of = {}
    for rq, r in zip(q_reqs, q_res):
        a = r.get("ast", {})
        if r.get("outcome") == "ok" and a.get("outcome") == "ok" and a["tree"][0] == "cat" and len(a["tree"]) == 3:
            tree_of[rq["pattern"]] = a["tree"][1]
    q_cases, q_meta = [], []
    for x in QUANT_ATOMS:
        for q, qt in QUANT_FORMS:
            if x in tree_of and x + q in tree_of:
                q_cases.append("(%s, %s, %s)" % (fp_node(tree_of[x]), qt, fp_node(tree_of[x + q])))
                q_meta.append(x + q)
    qpath = os.path.join(C.GEN, "cases_C10q.v")
    with open(qpath, "w") as f:
        f.write(QUANT_V % ";\n".join(q_cases))
    (qok, qout), = C.coqc_many([qpath], 300)
    q_bad = C.parse_mismatches(qout) if qok else None
    dist["quantified_trees"] = len(q_cases)
    dist["direct_route_trees"] = len(fp_cases)
    dist["direct_route_trees_undecided_slow"] = fp_slow
    bad, out = R.run_case_file("cases_C10", cases)
    rep.cov["evaluations"] = len(cases)
    rep.cov["undecided_slow_patterns"] = [cases[i][0] for i in R.LAST.get("slow", [])][:10]
    rep.cov["programs"] = sum(len(c[2]) for c in cases)
    rep.cov["distinct_nontrivial"] = sum(1 for p, code, a in cases if code == 0 and any(ch in p for ch in "?*{|"))
    rep.cov["rule"] = ("patterns = corpus + shapes with nullable operands / empty-matching patterns / duplicated sub-expressions + every construct "
                       "+ small exhaustive family over {a,b} + random trees; each accepted pattern contributes the followpos automaton and the "
                       "NFA-route automaton, each certified equal to the model for ALL strings (hence to each other); non-trivial = uses ? * {} or |")
    rep.cov["input_distribution"] = dist
    rep.cov["samples"] = [{"pattern": p, "impl": code, "automata": len(a)} for p, code, a in cases[3:9]]
    if bad is None:
        rep.obligation("instance file compiles", False)
        rep.violation("cases", {"theorem": "gen/cases_C10_*.v does not compile", "log": out[-3000:]}, no_input=True)
        return rep.finish()
    # patterns with a NUL-containing set: the NFA route treats NUL as epsilon, the followpos route as a character;
    # the routes then differ (known finding D3); such patterns are not judged here
    known_idx = list(R.LAST["known"])
    bad = [i for i in bad if i not in set(known_idx)]
    rep.obligation("three-way certified instances on the %d patterns outside known finding D3 (%d automata in all)"
                   % (len(cases) - len(known_idx), rep.cov["programs"]), not bad)
    rep.cov["disagreements_checked"] = len(bad)
    k = rep.match_known({"pattern-set-contains-nul"})
    if known_idx and k is not None:
        for _ in known_idx:
            rep.known_finding(k)
    elif known_idx:
        i = known_idx[0]
        rep.violation("language", {"pattern": cases[i][0], "what_fails": "a set of the pattern contains NUL (epsilon of the automata library)"})
    if fp_err is not None:
        rep.obligation("direct-route cases compile", False)
        rep.violation("cases", {"theorem": "gen/cases_C10fp_*.v does not compile", "log": fp_err[-3000:]}, no_input=True)
    else:
        rep.obligation("direct route: tree numbered left to right and == the model's tree of the pattern, nullable / firstpos / lastpos / followpos == model, "
                       "automaton == position automaton of the tree (certified) on %d trees" % len(fp_cases), not fp_bad and not fp_shape)
    if q_bad is None and not qok and not qout.strip():
        dist["quantified_trees_undecided_slow"] = len(q_cases)      # the kernel did not finish within the time limit: undecided, not a failure
    elif q_bad is None:
        rep.obligation("quantifier cases compile", False)
        rep.violation("cases", {"theorem": "gen/cases_C10q.v does not compile", "log": qout[-3000:]}, no_input=True)
    else:
        rep.obligation("quantifyNode: the tree of X followed by a quantifier is the model's quantify of the tree of X (%d atom x quantifier pairs of %d)"
                       % (len(q_cases), len(QUANT_ATOMS) * len(QUANT_FORMS)), not q_bad and len(q_cases) == len(QUANT_ATOMS) * len(QUANT_FORMS))
        for i in (q_bad or [])[:2]:
            rep.failure("quantify", {"quantify"}, {"pattern": q_meta[i], "what_fails": "the tree built for the quantified atom is not the one the model of quantifyNode builds",
                                                   "tree": tree_of.get(q_meta[i])}, no_input=True)
        if len(q_cases) != len(QUANT_ATOMS) * len(QUANT_FORMS) and not q_bad:
            missing = [x + q for x in QUANT_ATOMS for q, _ in QUANT_FORMS if x + q not in tree_of or x not in tree_of]
            rep.failure("quantify", {"quantify-rejected"}, {"pattern": missing[0], "what_fails": "a documented quantifier form is not accepted by the direct route"})
    for p, why in fp_shape[:2]:
        rep.failure("followpos", {"followpos-shape"}, {"pattern": p, "what_fails": why})
    for i in fp_bad[:3]:
        p, a = fp_meta[i]
        wit = None
        try:
            nd = next((c[2][1] for c in cases if c[0] == p and len(c[2]) > 1), None)
            if nd is not None:
                wit = R.distinguishing(a["dfa"], nd)
        except Exception:
            wit = None
        detail = {"pattern": p, "dumped": {k: a[k] for k in ("nullable", "first", "last", "follows")},
                  "what_fails": "the tables or the automaton of the direct route differ from the model of Reg/Followpos.v"}
        if wit is not None:
            detail["string_codepoints"] = wit
            detail["note"] = "on this string the direct route and the NFA route disagree"
        rep.failure("followpos", {"followpos"}, detail, no_input=(wit is None))
    for p, ca, cn in outcome_diff[:3]:
        rep.failure("outcome", {"routes-outcome"}, {"pattern": p, "ast_route": ca, "nfa_route": cn,
                                                    "note": "0 accepted, 1 syntax, 2 semantic, 3 panic/other"})
    found = False
    if bad:
        found = c02.explain(rep, [cases[i] for i in bad], route="ast", prop=PROP)
    if not ok and not found and not rep.violations:
        rep.violation("proof", {"theorem": "Props/C10.v", "log": log[-2500:]}, no_input=True)
    return rep.finish()


def replay(path):
    d = json.load(open(path))
    if "route" not in d:
        d["route"] = "ast"
    with open(path + ".tmp", "w") as f:
        json.dump(d, f)
    try:
        return c02.replay(path + ".tmp")
    finally:
        os.unlink(path + ".tmp")
