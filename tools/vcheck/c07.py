"""C07 — a specification is rejected iff it is ill-formed; every terminal gets exactly one definition."""
import json
import os
import re

from . import common as C
from . import specfam as S
from . import c01

PROP = "C07"

CASES_V = """(* GENERATED: correspondence cases for C07 *)
From Coq Require Import String List Bool NArith.
From Verif Require Import Reg.MaxMunch Cfg.Ebnf Cfg.Translate Emerge.SpecModel Emerge.SpecWf Emerge.Pipeline.
Import ListNotations.
Local Open Scope N_scope.
Local Open Scope string_scope.
Definition diag_code (d : diag) : N * string :=
  match d with
  | NoDefinition a => (1, a) | MultipleDefinitions a => (2, a) | SameValue v _ => (3, v) | NoStartRule => (4, "")
  | NoProductionFor A => (5, A) | HandleInTwoLevels => (6, "") | InvalidPredef v => (7, v)
  end.
Definition code_eqb (x y : N * string) : bool := (fst x =? fst y)%%N && String.eqb (snd x) (snd y).
Definition codes_seteqb (a b : list (N * string)) : bool :=
  forallb (fun x => existsb (code_eqb x) b) a && forallb (fun x => existsb (code_eqb x) a) b.
(* observation: 0 accepted (with the definition list), 1 rejected by spec.Parse (with diagnostics), 2 syntax/lexical error,
   3 accepted by spec.Parse but a pattern is invalid (Spec.DFA) *)
Definition case := (list N * N * list (string * string * bool) * list (N * string))%%type.
Definition agrees (c : case) : bool :=
  let '(text, code, defs, diags) := c in
  match front text with
  | FSpec _ ds =>
    match spec_diags ds with
    | [] => if patterns_ok ds then (code =? 0)%%N && defs_eqb (definitions (translate_spec ds)) defs
            else (code =? 3)%%N
    | dl => (code =? 1)%%N && codes_seteqb (map diag_code dl) diags
    end
  | _ => (code =? 2)%%N
  end.
(* the model's verdict and definitions equal the declarative reading (judged when no literal/token name clash) *)
Definition declarative (c : case) : bool :=
  let '(text, _, _, _) := c in
  match front text with
  | FSpec _ ds =>
    if spec_names_distinct ds then
      Bool.eqb (match spec_diags ds with [] => true | _ => false end) (spec_wf ds)
      && (match spec_diags ds with [] => defs_seteqb (definitions (translate_spec ds)) (expected_defs ds) | _ => true end)
    else true
  | _ => true
  end.
Definition clash (c : case) : bool :=
  let '(text, _, _, _) := c in
  match front text with FSpec _ ds => spec_names_distinct ds | _ => true end.
Definition cases : list case := [
%s
].
Definition M := Eval vm_compute in mismatches agrees 0 cases.
Print M.
Definition W := Eval vm_compute in mismatches declarative 0 cases.
Print W.
Definition K := Eval vm_compute in mismatches clash 0 cases.
Print K.
"""

DEFECTS = ["undefined-token", "double-definition", "double-definition-verbatim", "same-value", "unknown-predef", "invalid-pattern", "no-production", "no-start", "handle-twice",
           "rule-handle-twice", "rule-handle-twice-later", "unknown-predef-unused", "unknown-predef-plus-valid", "directive-repeated"]


def seed_defects(rng, text, which):
    lines = [l for l in text.split("\n") if l.strip()]
    head, decls = lines[0], lines[1:]
    for d in which:
        if d == "undefined-token":
            decls.append("zz = UNDEF_TOK;")
        elif d == "double-definition":
            decls.append('DUP = "d1";')
            decls.append("DUP = /d2/;")
            decls.append("yy = DUP;")
        elif d == "double-definition-verbatim":
            k = rng.choice(['"dv"', "/dv+/", "$DIGIT"])
            decls.append("DUPV = %s;" % k)
            decls.append("DUPV = %s;" % k)
            decls.append("xx = DUPV;")
        elif d == "same-value":
            decls.append('SAME_A = "same";')
            decls.append('ww = SAME_A "same";')
        elif d == "unknown-predef":
            decls.append("PRE = $NOSUCH;")
            decls.append("vv = PRE;")
        elif d == "unknown-predef-unused":
            decls.append("PREU = $NOSUCHU;")                 # the only defect: nothing else refers to the token
        elif d == "unknown-predef-plus-valid":
            decls.append("PREV = $NOSUCHV;")                 # the token has one valid definition besides
            decls.append("PREV = /pv+/;")
            decls.append("qq = PREV;")
        elif d == "invalid-pattern":
            decls.append("BADP = /[z-a]/;")
            decls.append("uu = BADP;")
        elif d == "no-production":
            decls.append("tt = missing_rule;")
        elif d == "no-start":
            decls = [l for l in decls if not l.startswith("start =")]
        elif d in ("rule-handle-twice", "rule-handle-twice-later"):
            # a production listed in two levels, once as the SECOND alternative of a rule handle (first or later on its line)
            n = "rh" if d == "rule-handle-twice" else "rk"
            lead = "" if d == "rule-handle-twice" else '"%s0" ' % n
            decls.append('@left %s<%s = %s "%s1" %s | %s "%s2" %s>;' % (lead, n, n, n, n, n, n, n))
            decls.append('@right <%s = %s "%s2" %s>;' % (n, n, n, n))
            decls.append('%s = "%sq"%s;' % (n, n, (' | "%s0"' % n) if lead else ""))
            decls.append("r%s = %s;" % (n, n))
        elif d == "directive-repeated":
            decls.append('@left "rr" "rs";')                 # the same directive twice: two levels with the same handles
            decls.append('@left "rr" "rs";')
            decls.append('rq = "rr" "rs";')
        elif d == "handle-twice":
            decls.append('@left "hh";')
            decls.append('@right "hh";')
            decls.append('ss = "hh";')
    rng.shuffle(decls)
    return head + "\n" + "\n".join(decls) + "\n"


DIAG_RX = [
    (1, re.compile(r"no definition for terminal (.+)")),
    (2, re.compile(r"multiple definitions for terminal (.+):")),
    (3, re.compile(r'multiple definitions with the same value: "(.*)"')),
    (4, re.compile(r"missing production rule with the start symbol")),
    (5, re.compile(r"no production rule for non-terminal symbol (.+)")),
    (6, re.compile(r"appeared in more than one precedence level")),
    (7, re.compile(r"invalid predefined regex: (.+)")),
]


def unq(s):
    s = s.strip()
    if len(s) >= 2 and s[0] == '"' and s[-1] == '"':
        try:
            return json.loads(s)
        except Exception:
            return s[1:-1]
    return s


def parse_diags(msg):
    out, other = [], []
    for line in msg.split("\n"):
        line = line.strip().lstrip("•").strip()
        if not line or line.endswith("occurred:") or line.endswith("error occurred:") or line.endswith("errors occurred:"):
            continue
        for code, rx in DIAG_RX:
            m = rx.search(line)
            if m:
                sym = unq(m.group(1)) if m.groups() else ""
                if code == 3:
                    sym = m.group(1).encode().decode("unicode_escape") if "\\" in m.group(1) else m.group(1)
                if code == 6:
                    sym = ""
                out.append((code, sym))
                break
        else:
            if re.match(r"^f:\d+:\d+", line) or line.startswith("f:") or line.startswith("<nil>"):
                continue            # position lines of a multi-line diagnostic
            other.append(line)
    return out, other


def observe(r):
    """(code, defs, diags, problem) from the spec_dfa response."""
    if r.get("outcome") == "error":
        msg = r.get("error", "")
        if "lexical error" in msg or "unexpected string" in msg or "no action exists" in msg:
            return 2, [], [], None
        diags, other = parse_diags(msg)
        return 1, [], diags, ("unrecognised diagnostic lines: %r" % other if other else None)
    if r.get("outcome") != "ok":
        return 9, [], [], "outcome %r" % r.get("outcome")
    defs = [(d[0], d[1], bool(d[2])) for d in r.get("definitions", [])]
    if "dfa_error" in r:
        if "invalid regular expression" in r["dfa_error"] or "invalid character range" in r["dfa_error"] or "invalid repetition range" in r["dfa_error"]:
            return 3, defs, [], None
        return 0, defs, [], None       # definition conflicts are C03's subject
    return 0, defs, [], None


def case_term(text, code, defs, diags):
    d = "[" + "; ".join("(%s, %s, %s)" % (C.coq_string(a), C.coq_string(v), "true" if r else "false") for a, v, r in defs) + "]"
    g = "[" + "; ".join("(%d, %s)" % (c, C.coq_string(s)) for c, s in diags) + "]"
    return "(%s, %d, %s, %s)" % (C.coq_nat_list(C.codepoints(text)), code, d, g)


def check(tier):
    rep = C.Report(PROP, tier, "proof")
    rng = C.rng_for(PROP)
    try:
        c01.regen_all()
    except C.BuildError as e:
        rep.obligation("translate sources", False)
        rep.violation("translator", {"theorem": "generated tables cannot be regenerated", "detail": str(e)}, no_input=True)
        return rep.finish()
    ok, log = C.coq_make(["theories/Props/C07.vo"])
    for t in ["accepted_has_one_definition_per_terminal", "definition_list_is_exact", "every_terminal_carries_the_declared_definitions",
              "accepted_terminal_has_the_declared_definition", "string_literal_defines_itself", "named_token_carries_its_declarations",
              "table_has_exactly_the_defined_and_used_names", "no_definition_is_reported_iff_a_token_is_used_without_one",
              "multiple_definitions_are_reported_iff_there_are_several", "unknown_predefined_name_is_reported_iff_written", "no_start_rule_is_reported_iff_none_is_written",
              "reported_missing_rule_is_missing", "missing_rule_is_reported", "same_value_is_reported_iff_two_terminals_share_it",
              "rejected_iff_ill_formed", "rejected_iff_ill_formed_declaratively", "accepted_iff_wf_spec", "declared_definitions_example", "verdict_examples", "gen_name_premise_is_needed", "name_clash_refuted"]:
        rep.obligation("Props/C07.v: " + t, ok)
    rep.cov["print_assumptions"] = "Closed under the global context x%d" % log.count("Closed under the global context") if ok else "n/a"
    rep.cov["partial"] = ["name_clash_refuted (known finding D7): the declarative iff is claimed under names_distinct"]

    texts = []
    corpus = os.path.join(C.VERIF, "corpus", "C07.jsonl")
    if os.path.exists(corpus):
        texts += [json.loads(l)["text"] for l in open(corpus) if l.strip()]
    base = [S.gen_wellformed(rng, collide=0.0) for _ in range(25 if tier == "quick" else 400)]
    # well-formed variations that are NOT defects: tokens declared but used nowhere, tokens used only in a directive
    #   and patterns/strings that begin or end with blanks (the blank is part of the declared value; two values that differ
    #   only there are different values)
    extras = ['UNUSED_A = "ua";', "UNUSED_B = /ub+/;", "UNUSED_C = $NUMBER;", 'ONLYPREC = "op";\n@left ONLYPREC;',
              "GAP_E = / +/;", "TAIL_E = /[a-z]+ /;", "LEAD_E = / xe/;\nTRAIL_E = /xe /;\nMID_E = /xe/;", 'SP_E = " ";\nSP2_E = "  ";',
              "TAB_E = /\t+/;", 'PAD_E = " pe ";\nNOPAD_E = "pe";']
    for i in range(len(base)):
        if rng.random() < 0.5:
            lines = [l for l in base[i].split("\n") if l.strip()]
            for e in rng.sample(extras, rng.randint(1, 3)):
                lines.insert(rng.randint(1, len(lines)), e)
            base[i] = "\n".join(lines) + "\n"
    texts += base
    for b in base:
        for d in DEFECTS:                       # each defect alone
            if rng.random() < (0.35 if tier == "quick" else 1.0):
                texts.append(seed_defects(rng, b, [d]))
        for _ in range(2 if tier == "quick" else 6):     # any combination, any order
            k = rng.randint(2, 4)
            texts.append(seed_defects(rng, b, rng.sample(DEFECTS, k)))
    texts = [t for t in dict.fromkeys(texts) if S.printable(t)]
    res = C.hook_map([{"op": "spec_dfa", "text": t} for t in texts], timeout_each=20)
    cases, dist, problems = [], {"accepted": 0, "rejected": 0, "syntax": 0, "invalid_pattern": 0}, []
    for t, r in zip(texts, res):
        code, defs, diags, prob = observe(r)
        if prob:
            problems.append((t, prob, r.get("error", "")[:300]))
            continue
        if not all(S.printable(a + v) for a, v, _ in defs):
            continue
        dist[{0: "accepted", 1: "rejected", 2: "syntax", 3: "invalid_pattern"}[code]] += 1
        cases.append((t, code, defs, diags))
    paths, offs = [], []
    shard = 40
    for o in range(0, len(cases), shard):
        path = os.path.join(C.GEN, "cases_C07_%d.v" % (o // shard))
        with open(path, "w") as f:
            f.write(CASES_V % ";\n".join(case_term(*c) for c in cases[o:o + shard]))
        paths.append(path)
        offs.append(o)
    bad, decl_bad, clash, cerr = [], [], [], None
    for (okc, out), o in zip(C.coqc_many(paths, timeout=900), offs):
        m = C.parse_mismatches(out) if okc else None
        w = C.parse_mismatches(out, "W") if okc else None
        k = C.parse_mismatches(out, "K") if okc else None
        if m is None or w is None or k is None:
            cerr = out
            break
        bad.extend(o + x for x in m)
        decl_bad.extend(o + x for x in w)
        clash.extend(o + x for x in k)
    rep.cov["evaluations"] = len(cases)
    rep.cov["distinct_nontrivial"] = dist["rejected"] + dist["invalid_pattern"]
    rep.cov["rule"] = ("well-formed specifications, each seeded with every single defect of the property's list and with random combinations of "
                       "2-4 defects, declarations shuffled; verdict, diagnostics as (kind, symbol) sets and the ordered definition list of "
                       "spec.Parse/Spec.DFA are compared with the Coq model; the model is compared with the declarative reading by the kernel; "
                       "non-trivial = a rejected specification")
    rep.cov["input_distribution"] = dict(dist, literal_token_name_clash=len(clash))
    rep.cov["samples"] = [{"text": c[0], "code": c[1], "diagnostics": c[3]} for c in cases[30:34]]
    if cerr is not None:
        rep.obligation("correspondence cases compile", False)
        if ok:
            rep.violation("cases", {"theorem": "gen/cases_C07_*.v does not compile", "log": cerr[-3000:]}, no_input=True)
        return rep.finish()
    rep.obligation("correspondence: verdict, diagnostics and definitions of spec.Parse == Coq model on %d specifications" % len(cases), not bad)
    rep.obligation("model == declarative well-formedness and definitions on the %d specifications without name clash" % (len(cases) - len(clash)),
                   not decl_bad)
    rep.obligation("every diagnostic line is one of the documented kinds", not problems)
    kf = rep.match_known({"literal-token-name-clash"})
    for i in clash:
        if kf is not None:
            rep.known_finding(kf)
    if clash and kf is None:
        rep.violation("definitions", {"input_text": cases[clash[0]][0], "what_fails": "a token and a literal with the same text are one terminal"})
    for i in bad[:3]:
        rep.failure("verdict", {"verdict"}, {"input_text": cases[i][0], "observed_code": cases[i][1], "observed_definitions": cases[i][2],
                                             "observed_diagnostics": cases[i][3],
                                             "note": "0 accepted, 1 rejected, 2 syntax error, 3 invalid pattern; differs from the model"})
    for i in decl_bad[:3]:
        rep.failure("declarative", {"declarative"}, {"input_text": cases[i][0], "note": "model verdict/definitions differ from the declarative reading"},
                    no_input=False)
    for t, prob, err in problems[:3]:
        rep.failure("diagnostic", {"diagnostic"}, {"input_text": t, "problem": prob, "error": err})
    if not ok and not rep.violations:
        rep.violation("proof", {"theorem": "Props/C07.v", "log": log[-2500:]}, no_input=True)
    return rep.finish()


def replay(path):
    d = json.load(open(path))
    if "input_text" not in d:
        print("replay names an obligation:", d.get("theorem"))
        return 1
    r = C.hook_batch([{"op": "spec_dfa", "text": d["input_text"]}])[0]
    print("now:", observe(r))
    return 1
