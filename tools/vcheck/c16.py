"""C16 — CLI: success iff the package is fully written; flags honoured; existing files untouched."""
import hashlib
import itertools
import json
import os
import shutil
import subprocess
import tempfile

from . import common as C
from . import c08
from . import clifam

PROP = "C16"

SPEC_OK = 'grammar calc;\nNUM = /[0-9]+/;\nstart = start "+" NUM | NUM;\n'
INPUTS = {
    # class -> (file content or None, model term)
    "accepted": (SPEC_OK, 'Readable (PAccepted "calc" true true)'),
    # accepted specifications of other shapes: no terminal at all (the token automaton is empty), string literals only
    "accepted_no_terminals": ('grammar calc;\nstart = unit unit;\nunit = ;\n', 'Readable (PAccepted "calc" true true)'),
    "accepted_literals_only": ('grammar calc;\nstart = "a" start | ;\n', 'Readable (PAccepted "calc" true true)'),
    "dfa_fails": ('grammar calc;\nNUM = /[0-9]+/;\nINT = /[0-9][0-9]*/;\nstart = NUM INT;\n', 'Readable (PAccepted "calc" false true)'),
    "lalr_fails": ('grammar calc;\nstart = start "+" start | "x";\n', 'Readable (PAccepted "calc" true false)'),
    "both_fail": ('grammar calc;\nNUM = /[0-9]+/;\nINT = /[0-9][0-9]*/;\nstart = start NUM start | INT;\n', 'Readable (PAccepted "calc" false false)'),
    "syntax_error": ('grammar calc;\nstart = = "x";\n', "Readable PSyntax"),
    "spec_error": ('grammar calc;\nstart = NUM;\n', "Readable PSpec"),
    "binary": (b"\xff\xfe\x00\x01grammar", "Readable PSyntax"),
    "empty": ("", "Readable PSyntax"),
    "missing_file": (None, "Unreadable"),
    "no_argument": (None, "NoArg"),
    "directory_as_file": ("<dir>", "Readable PSyntax"),
}
NAMES = ["", "pkg", "Calc_2", "_x", "func", "range", "len", "nil", "_", "9x", "a-b", "a/b", "../x", "x y", "a.b", "é", "пакет"]
OUT_STATES = ["default_cwd", "missing", "file", "empty_dir", "child_dir_empty", "child_dir_with_targets", "child_file", "child_symlink_dir",
              "child_symlink_dangling", "dir_with_other_entries"]
FLAG_SETS = [[], ["-debug"], ["-verbose"], ["-debug", "-verbose"]]
BAD_FLAGS = [(["-bogus"], False), (["-h"], True), (["-name"], False), (["-debug=maybe"], False), (["--nope", "x"], False), (["-out"], False)]

CASES_V = """(* GENERATED: runs of the emerge binary in a sandbox vs the model of Emerge/Cli.v with the translated parameters *)
From Coq Require Import String List Bool Arith NArith.
From Verif Require Import Reg.MaxMunch Emerge.Cli.
From VerifGen Require Import CliGo.
Import ListNotations.
Local Open Scope string_scope.
Definition node_eqb (a b : node) : bool :=
  match a, b with Dir, Dir | Link, Link => true | File x, File y => String.eqb x y | _, _ => false end.
Definition created (s s' : fs) : list (string * node) := firstn (length s' - length s) s'.
Definition subset (a b : list (string * node)) : bool :=
  forallb (fun x => existsb (fun y => String.eqb (fst x) (fst y) && node_eqb (snd x) (snd y)) b) a.
Definition exit_code (e : exit) : nat := match e with Exit n => n | Panic => 99 end.
(* config, file system before, observed (status (99 = stack trace), success announced, entries created) *)
Definition case := (config * fs * (nat * bool * list (string * node)))%%type.
Definition agrees (c : case) : bool :=
  let '(cfg, s, (st, ann, cr)) := c in
  let r := run params_go cfg s in
  Nat.eqb (exit_code (r_exit r)) st && Bool.eqb (r_announced r) ann
  && subset (created s (r_fs r)) cr && subset cr (created s (r_fs r)).
Definition cases : list case := [
%(cases)s
].
Definition M := Eval vm_compute in mismatches agrees 0%%N cases.
Print M.
(* isIDValid of the implementation vs the model on ASCII names *)
Definition idcases : list (string * bool) := [
%(idcases)s
].
Definition W := Eval vm_compute in mismatches (fun c : string * bool => Bool.eqb (is_id_valid params_go (fst c)) (snd c)) 0%%N idcases.
Print W.
"""


def snapshot(root):
    snap = {}
    for d, dirs, files in os.walk(root, followlinks=False):
        for n in dirs + files:
            p = os.path.join(d, n)
            rel = os.path.relpath(p, root)
            st = os.lstat(p)
            if os.path.islink(p):
                snap[rel] = ("link", os.readlink(p), st.st_mode, st.st_mtime_ns)
            elif os.path.isdir(p):
                snap[rel] = ("dir", "", st.st_mode, 0)
            else:
                snap[rel] = ("file", hashlib.sha256(open(p, "rb").read()).hexdigest(), st.st_mode, st.st_mtime_ns, st.st_size)
    return snap


def build_state(root, out_state, pkg):
    """Creates the pre-existing state; returns (out argument or None, model fs entries [(path, node term)], model c_out)."""
    ents = []
    if out_state == "default_cwd":
        return None, [(".", "Dir")], "."
    out = os.path.join(root, "out")
    if out_state == "missing":
        return "out", [], "out"
    if out_state == "file":
        open(out, "w").write("i am a file\n")
        return "out", [("out", 'File "pre"')], "out"
    os.mkdir(out)
    ents.append(("out", "Dir"))
    child = os.path.join(out, pkg) if pkg and "/" not in pkg and pkg not in (".", "..") else None
    if out_state == "dir_with_other_entries":
        open(os.path.join(out, "notes.txt"), "w").write("keep me\n")
        os.mkdir(os.path.join(out, "other"))
        open(os.path.join(out, "other", "lexer.go"), "w").write("package other\n")
        ents += [("out/notes.txt", 'File "pre"'), ("out/other", "Dir"), ("out/other/lexer.go", 'File "pre"')]
    elif child is not None:
        if out_state == "child_dir_empty":
            os.mkdir(child)
            ents.append(("out/" + pkg, "Dir"))
        elif out_state == "child_dir_with_targets":
            os.mkdir(child)
            ents.append(("out/" + pkg, "Dir"))
            for f in ("lexer.go", "types.go"):
                open(os.path.join(child, f), "w").write("package old // precious\n")
                ents.append(("out/%s/%s" % (pkg, f), 'File "pre"'))
        elif out_state == "child_file":
            open(child, "w").write("a file where the package should go\n")
            ents.append(("out/" + pkg, 'File "pre"'))
        elif out_state == "child_symlink_dir":
            os.mkdir(os.path.join(root, "elsewhere"))
            open(os.path.join(root, "elsewhere", "keep.txt"), "w").write("keep\n")
            os.symlink(os.path.join(root, "elsewhere"), child)
            ents.append(("out/" + pkg, "Link"))
        elif out_state == "child_symlink_dangling":
            os.symlink(os.path.join(root, "nowhere"), child)
            ents.append(("out/" + pkg, "Link"))
    return "out", ents, "out"


def one_run(exe, scratch, idx, flags, name, inp, out_state, reference, trailing=None, flags_last=None):
    root = os.path.join(scratch, "r%d" % idx)
    os.mkdir(root)
    content, arg_term = INPUTS[inp]
    pkg = name if name else "calc"
    out_arg, ents, c_out = build_state(root, out_state, pkg)
    argv = list(flags)
    if name:
        argv += ["-name", name]
    if out_arg:
        argv += ["-out", out_arg]
    if flags_last:
        argv += flags_last
    spec_path = None
    if inp == "missing_file":
        argv.append("nofile.grammar")
    elif inp == "directory_as_file":
        os.mkdir(os.path.join(root, "in.grammar"))
        argv.append("in.grammar")
        ents.append((("./" if c_out == "." else "") + "in.grammar", "Dir"))
    elif inp != "no_argument":
        spec_path = os.path.join(root, "in.grammar")
        with open(spec_path, "wb") as f:
            f.write(content if isinstance(content, bytes) else content.encode("utf-8"))
        argv.append("in.grammar")
        ents.append((("./" if c_out == "." else "") + "in.grammar", 'File "pre"'))
    if trailing:
        argv += trailing
    before = snapshot(root)
    try:
        p = subprocess.run([exe] + argv, cwd=root, stdout=subprocess.PIPE, stderr=subprocess.PIPE, timeout=120)
        status, so, se = p.returncode, p.stdout.decode("utf-8", "replace"), p.stderr.decode("utf-8", "replace")
    except subprocess.TimeoutExpired:
        status, so, se = 124, "", "timeout"
    after = snapshot(root)
    changed = [k for k in before if after.get(k) != before[k]]
    created = sorted(k for k in after if k not in before)
    trace = "goroutine 1 [running]" in se or "panic:" in se
    announced = "Successful!" in so or "Successful!" in se
    obs_created = []
    for k in created:
        kind = after[k][0]
        rel = ("./" + k) if c_out == "." else k
        if kind == "dir":
            obs_created.append((rel, "Dir"))
        elif kind == "link":
            obs_created.append((rel, "Link"))
        else:
            base = os.path.basename(k)
            ref = reference.get(((inp, pkg), base))
            tag = base if (ref is None or ref == after[k][1]) and after[k][4] > 0 else "partial"
            obs_created.append((rel, 'File "%s"' % tag))
    shutil.rmtree(root, ignore_errors=True)
    return {"argv": argv, "input": inp, "out_state": out_state, "name": name, "status": 99 if trace else status, "announced": announced,
            "created": obs_created, "changed": changed, "stderr": se[-400:], "model_fs": ents, "c_out": c_out, "arg_term": arg_term}


class Reference:
    """Content of each file when the same specification is generated under the same name into a clean directory
    (what 'completely written' means)."""

    def __init__(self, exe, scratch):
        self.exe, self.scratch, self.cache = exe, scratch, {}

    def get(self, key):
        (inp, pkg), base = key
        if (inp, pkg) not in self.cache:
            content = INPUTS[inp][0]
            hashes = {}
            if isinstance(content, str) and content != "<dir>" and "/" not in pkg and pkg not in ("", ".", ".."):
                root = os.path.join(self.scratch, "ref")
                os.makedirs(os.path.join(root, "out"))
                open(os.path.join(root, "in.grammar"), "w").write(content)
                subprocess.run([self.exe, "-out", "out", "-name", pkg, "in.grammar"], cwd=root, stdout=subprocess.PIPE, stderr=subprocess.PIPE, timeout=120)
                d = os.path.join(root, "out", pkg)
                if os.path.isdir(d):
                    for f in os.listdir(d):
                        hashes[f] = hashlib.sha256(open(os.path.join(d, f), "rb").read()).hexdigest()
                shutil.rmtree(root, ignore_errors=True)
            self.cache[(inp, pkg)] = hashes
        return self.cache[(inp, pkg)].get(base)


def cfg_term(r, flag_error=None, help_=False, version=False, name_seen=True):
    fe = "None" if flag_error is None else "Some %s" % ("true" if flag_error else "false")
    return "{| c_flag_error := %s; c_help := %s; c_version := %s; c_name := %s; c_out := %s; c_arg := %s |}" % (
        fe, "true" if help_ else "false", "true" if version else "false", C.coq_string(r["name"] if name_seen else ""), C.coq_string(r["c_out"]), r["arg_term"])


def case_term(r, **kw):
    fs = "[%s]" % "; ".join("(%s, %s)" % (C.coq_string(p), n) for p, n in reversed(r["model_fs"]))
    cr = "[%s]" % "; ".join("(%s, %s)" % (C.coq_string(p), n) for p, n in r["created"])
    return "(%s, %s, (%d, %s, %s))" % (cfg_term(r, **kw), fs, r["status"], "true" if r["announced"] else "false", cr)


def coq_str(s):
    """Coq string term for any ASCII string (control characters through ascii_of_nat)."""
    if all(32 <= ord(ch) < 127 for ch in s):
        return C.coq_string(s)
    term = '""'
    for ch in reversed(s):
        if 32 <= ord(ch) < 127:
            term = "(%s ++ %s)" % (C.coq_string(ch), term)
        else:
            term = "(String (Ascii.ascii_of_nat %d) %s)" % (ord(ch), term)
    return term


def ascii_only(s):
    return all(ord(ch) < 128 for ch in s)


def check(tier):
    rep = C.Report(PROP, tier, "proof")
    rng = C.rng_for(PROP)
    try:
        clifam.regen()
        tr_err = None
    except Exception as e:                       # translator itself failed
        tr_err = str(e)
    gen_text = open(os.path.join(C.GEN, "CliGo.v")).read()
    rep.obligation("translator read the command-line code (gen/CliGo.v)", tr_err is None and "could not read" not in gen_text)
    files = {"theories/Props/C16.vo": ["existing_entries_untouched", "exit0_implies_package_complete", "package_complete_implies_exit0",
                                       "not_accepted_implies_failure", "name_flag_replaces_grammar_name", "without_name_flag_grammar_name",
                                       "everything_created_is_under_out_name", "package_directory_is_created_by_the_run"],
             "theories/Props/C16Names.vo": ["unusable_package_name_rejected"],
             "theories/Props/C16Flags.vo": ["bad_flags_exit_cleanly", "cli_never_panics"]}
    broken = {}
    for target, thms in files.items():
        ok, log = C.coq_make([target])
        for t in thms:
            rep.obligation("%s: %s (instantiated with the translated parameters)" % (target.replace("theories/", "").replace(".vo", ".v"), t), ok)
        if not ok:
            broken[target] = log[-1500:]
    C.build_tools()
    exe = c08.emerge_binary()
    scratch = tempfile.mkdtemp(prefix="verif-c16-")
    runs, bad_runs = [], []
    try:
        reference = Reference(exe, scratch)
        combos = list(itertools.product(FLAG_SETS, NAMES, INPUTS, OUT_STATES))
        rng.shuffle(combos)
        # every (name x out-state) pair with the accepted input first: that is where files get written
        priority = [(f, n, "accepted", o) for f in FLAG_SETS[:1] for n in NAMES for o in OUT_STATES]
        priority += [([], "", i, o) for i in INPUTS for o in OUT_STATES]
        chosen = priority + (combos[:150] if tier == "quick" else combos)
        idx = 0
        for flags, name, inp, out_state in chosen:
            runs.append((one_run(exe, scratch, idx, flags, name, inp, out_state, reference), {}))
            idx += 1
        for mode, kw in ((["-help"], {"help_": True}), (["-version"], {"version": True}), (["-help", "-version"], {"help_": True, "version": True}),
                         (["--help"], {"help_": True})):
            for inp in ("accepted", "no_argument", "syntax_error"):
                for out_state in ("empty_dir", "missing", "child_dir_with_targets"):
                    runs.append((one_run(exe, scratch, idx, mode, "pkg", inp, out_state, reference), kw))
                    idx += 1
        for bad, is_help in BAD_FLAGS:
            for out_state in ("empty_dir", "child_dir_with_targets", "default_cwd"):
                inp = "no_argument" if bad[-1] in ("-name", "-out") else "accepted"
                bad_runs.append((one_run(exe, scratch, idx, [], "", inp, out_state, reference, flags_last=bad), {"flag_error": is_help}))
                idx += 1
        # flags placed after the file argument are not flags (standard flag package): the name in the grammar is used
        for out_state in ("empty_dir", "dir_with_other_entries"):
            r = one_run(exe, scratch, idx, [], "", "accepted", out_state, reference, trailing=["-name", "late"])
            runs.append((r, {}))
            idx += 1
    finally:
        shutil.rmtree(scratch, ignore_errors=True)

    # the frame property is checked directly on every run (including non-ASCII names, which the model does not cover)
    touched = [r for r, _ in runs + bad_runs if r["changed"]]
    rep.obligation("no run changed, truncated or removed a pre-existing entry (%d runs; bytes, modes, mtimes)" % (len(runs) + len(bad_runs)), not touched)
    for r in touched[:3]:
        rep.failure("frame", {"frame"}, {"argv": r["argv"], "out_state": r["out_state"], "input": r["input"], "changed_entries": r["changed"]})

    modelled = [(r, kw) for r, kw in runs + bad_runs if ascii_only(r["name"])]
    names = sorted(set(NAMES + clifam.translate_cli()["builtin"] + ["abc\n", "a b", "A", "z9", "_9", "__", "a_", "go", "Go", "type1", "", " ", "x\t"]
                       + ["".join(rng.choice("ab_9Z-.") for _ in range(rng.randint(1, 4))) for _ in range(60)]))
    names = [n for n in names if ascii_only(n)]
    idres = C.hook_batch([{"op": "id_valid", "names": names}])[0]
    idcases = list(zip(names, idres.get("valid", [])))
    path = os.path.join(C.GEN, "cases_C16.v")
    with open(path, "w") as f:
        f.write(CASES_V % {"cases": ";\n".join(case_term(r, **kw) for r, kw in modelled),
                           "idcases": ";\n".join("(%s, %s)" % (coq_str(n), "true" if v else "false") for n, v in idcases)})
    okc, out = C.coqc_file(path, timeout=900)
    m = C.parse_mismatches(out, "M") if okc else None
    w = C.parse_mismatches(out, "W") if okc else None
    rep.obligation("binary == model (status, announcement, entries created with complete content) on %d sandbox runs" % len(modelled), m is not None and not m)
    rep.obligation("isIDValid == model on %d ASCII names" % len(idcases), w is not None and not w)
    if not okc:
        rep.violation("cases", {"theorem": "gen/cases_C16.v does not compile", "log": out[-2000:]}, no_input=True)
    for i in (m or [])[:3]:
        r = modelled[i][0]
        rep.failure("model", {"model"}, {"argv": r["argv"], "out_state": r["out_state"], "input": r["input"], "status": r["status"],
                                         "announced": r["announced"], "created": r["created"], "stderr": r["stderr"]})
    for i in (w or [])[:3]:
        rep.failure("id-valid", {"id-valid"}, {"name": idcases[i][0], "implementation": idcases[i][1]})

    # direct statements of the property on the observations (independent of the model)
    ok_runs = [r for r, kw in runs if not kw and r["status"] == 0]
    incomplete = [r for r in ok_runs if not r["announced"] or sorted(os.path.basename(p) for p, n in r["created"] if n.startswith("File")) !=
                  ["errors.go", "input.go", "lexer.go", "parser.go", "stack.go", "types.go"] or any(n == 'File "partial"' for _, n in r["created"])]
    rep.obligation("status 0 => success announced and the six files completely written (%d successful runs)" % len(ok_runs), not incomplete and len(ok_runs) > 0)
    for r in incomplete[:2]:
        rep.failure("exit0", {"exit0"}, {"argv": r["argv"], "out_state": r["out_state"], "created": r["created"]})
    def into_existing(r):
        made = set(p for p, n in r["created"])
        for p, n in r["created"]:
            parent = p.rsplit("/", 1)[0] if "/" in p else "."
            if parent not in made and parent not in (r["c_out"], "."):
                return p
            if parent in (".",) and r["c_out"] != "." and "/" not in p:
                return p                      # created next to <out>, outside it
        return None
    intruders = [(r, into_existing(r)) for r, _ in runs + bad_runs if into_existing(r)]
    rep.obligation("nothing is created inside a directory that existed before the run, or outside <out> (only the new <out>/<name>)", not intruders)
    for r, p_ in intruders[:3]:
        rep.failure("existing-directory", {"existing-directory"}, {"argv": r["argv"], "out_state": r["out_state"], "input": r["input"],
                                                                    "created_in_existing_directory": p_, "created": r["created"]})
    announced_fail = [r for r, kw in runs + bad_runs if r["announced"] and r["status"] != 0]
    rep.obligation("success is announced only with status 0", not announced_fail)
    unusable = [r for r, kw in runs if not kw and r["input"] in ("accepted", "dfa_fails", "lalr_fails", "both_fail") and r["name"]
                and (not go_usable(r["name"])) and (r["status"] == 0 or r["created"])]
    rep.obligation("a name that is not a usable package identifier is rejected with nothing created", not unusable)
    for r in unusable[:3]:
        rep.failure("unusable-name", {"unusable-name"}, {"argv": r["argv"], "out_state": r["out_state"], "status": r["status"], "created": r["created"]})
    traces = [r for r, _ in runs + bad_runs if r["status"] == 99]
    rep.obligation("no run ends in a Go stack trace", not traces)
    for r in traces[:3]:
        rep.failure("stack-trace", {"stack-trace"}, {"argv": r["argv"], "stderr": r["stderr"]})
    bad_zero = [r for r, kw in bad_runs if not kw.get("flag_error") and r["status"] == 0]
    rep.obligation("bad flags give a non-zero status", not bad_zero)
    for r in bad_zero[:2]:
        rep.failure("bad-flag-status", {"bad-flag-status"}, {"argv": r["argv"], "status": r["status"]})

    found = bool(rep.violations)
    for target, log in broken.items():
        rep.violation("proof", {"theorem": target.replace(".vo", ".v") + " no longer holds for the parameters of the current source",
                                "parameters": gen_text[-900:], "log": log}, no_input=not found)
    if tr_err:
        rep.violation("translator", {"theorem": "gen/CliGo.v", "log": tr_err}, no_input=not found)

    rep.cov["evaluations"] = len(runs) + len(bad_runs) + len(idcases)
    rep.cov["distinct_nontrivial"] = len(set((tuple(r["argv"]), r["out_state"], r["input"]) for r, _ in runs + bad_runs))
    dist = {}
    for r, _ in runs + bad_runs:
        dist["status_%s" % r["status"]] = dist.get("status_%s" % r["status"], 0) + 1
        dist["out_" + r["out_state"]] = dist.get("out_" + r["out_state"], 0) + 1
        dist["in_" + r["input"]] = dist.get("in_" + r["input"], 0) + 1
    rep.cov["input_distribution"] = dist
    rep.cov["rule"] = ("sandbox directories outside /repo and /verif; product of flag sets x -name values (valid, keywords, predeclared, blank, malformed, "
                       "path-like, non-ASCII) x input classes (accepted, lexer step fails, parser step fails, syntax / specification errors, binary, empty, "
                       "missing, no argument, a directory) x pre-states of the output location (default cwd, missing, a file, empty, <name> present as "
                       "directory / directory with target files / file / symlink to a directory / dangling symlink, unrelated entries); the whole tree is "
                       "snapshotted (types, modes, sizes, hashes, mtimes) before and after")
    rep.cov["partial"] = ["permission-denied pre-states cannot be exercised (the sandbox runs as root)",
                          "non-ASCII names are outside the identifier model; they are run and checked against the frame property only",
                          "flags after the file argument are not flags (standard flag package): recorded as the code behaves"]
    return rep.finish()


GO_KEYWORDS = {"break", "default", "func", "interface", "select", "case", "defer", "go", "map", "struct", "chan", "else", "goto", "package", "switch",
               "const", "fallthrough", "if", "range", "type", "continue", "for", "import", "return", "var"}


def go_usable(name):
    """The Go specification's identifier (letters of any script, digits, underscore), not a keyword, not blank."""
    if not name or name == "_" or name in GO_KEYWORDS:
        return False
    if not (name[0].isalpha() or name[0] == "_"):
        return False
    return all(ch.isalpha() or ch == "_" or ch.isdigit() for ch in name[1:])


def replay(path):
    d = json.load(open(path))
    print(json.dumps({k: d[k] for k in d if k != "log"}, indent=1)[:3000])
    return 1
