"""The UTF-8 tables and masks of the emitted reader (internal/generate/golang/templates/input.go.tmpl) as Coq terms (gen/Utf8Go.v)."""
import os
import re

from . import common as C

TEMPLATE = os.path.join(C.REPO, "internal", "generate", "golang", "templates", "input.go.tmpl")
NEEDED = ["xx", "as", "locb", "hicb", "maskx", "mask2", "mask3", "mask4"]


def read_tables():
    """(first: 256 ints, accept: 16 (lo, hi), consts) read from the template source; BuildError when a piece is missing."""
    src = open(TEMPLATE).read()
    consts = {}
    for m in re.finditer(r"^\s*(\w+)\s*=\s*(0[bxBX][0-9A-Fa-f_]+|\d+)\b", src, re.M):
        consts[m.group(1)] = int(m.group(2).replace("_", ""), 0)

    def val(t):
        t = t.strip()
        if t in consts:
            return consts[t]
        try:
            return int(t, 0)
        except ValueError:
            raise C.BuildError("input.go.tmpl: cannot evaluate %r" % t)
    fm = re.search(r"var first = \[256\]uint8\{(.*?)\n\}", src, re.S)
    am = re.search(r"var acceptRanges = \[16\]acceptRange\{(.*?)\n\}", src, re.S)
    if not fm or not am or any(k not in consts for k in NEEDED):
        raise C.BuildError("input.go.tmpl: the tables `first` / `acceptRanges` or the masks are not where they were")
    body = re.sub(r"//[^\n]*", "", fm.group(1))
    first = [val(x) for x in body.split(",") if x.strip()]
    if len(first) != 256:
        raise C.BuildError("input.go.tmpl: `first` has %d entries" % len(first))
    acc = {}
    for m in re.finditer(r"(\d+):\s*\{([^,]+),\s*([^}]+)\}", am.group(1)):
        acc[int(m.group(1))] = (val(m.group(2)), val(m.group(3)))
    accept = [acc.get(i, (0, 0)) for i in range(16)]
    # the shape of Next itself is modelled by hand (Reg/Utf8.v); make sure the lines the model mirrors are still there
    for needle in ["x := first[b0]", "if x >= as {", "size := int(x & 0b0111)", "accept := acceptRanges[x>>4]",
                   "rune(b0&mask2)<<6 | rune(b1&maskx)", "rune(b0&mask3)<<12 | rune(b1&maskx)<<6 | rune(b2&maskx)",
                   "rune(b0&mask4)<<18 | rune(b1&maskx)<<12 | rune(b2&maskx)<<6 | rune(b3&maskx)"]:
        if needle not in src:
            raise C.BuildError("input.go.tmpl: Next no longer contains %r (the decoder model of Reg/Utf8.v mirrors it)" % needle)
    return first, accept, consts


def regen():
    first, accept, consts = read_tables()
    rows = "; ".join("[%s]" % "; ".join(str(x) for x in first[i:i + 16]) for i in range(0, 256, 16))
    text = ("(* GENERATED from internal/generate/golang/templates/input.go.tmpl: the UTF-8 tables of the emitted reader *)\n"
            "From Coq Require Import List NArith.\nImport ListNotations.\nLocal Open Scope N_scope.\n"
            "Definition u_first : list (list N) := [%s].\n"
            "Definition u_accept : list (N * N) := [%s].\n" % (rows, "; ".join("(%d, %d)" % a for a in accept))
            + "".join("Definition u_%s : N := %d.\n" % (k, consts[k]) for k in NEEDED))
    path = os.path.join(C.GEN, "Utf8Go.v")
    if not os.path.exists(path) or open(path).read() != text:
        with open(path, "w") as f:
            f.write(text)
    return first, accept, consts


def decode(first, accept, c, bs):
    """Python mirror of the Coq decoder (used to predict the outcome for probe inputs): ('eof'|'invalid'|('ok', cp, size))."""
    if not bs:
        return "eof"
    x = first[bs[0]]
    if x >= c["as"]:
        return "invalid" if x == c["xx"] else ("ok", bs[0], 1)
    size = x & 7
    if len(bs) < 2:
        return "eof"
    lo, hi = accept[x >> 4]
    if bs[1] < lo or hi < bs[1]:
        return "invalid"
    if size == 2:
        return ("ok", (bs[0] & c["mask2"]) << 6 | (bs[1] & c["maskx"]), 2)
    if len(bs) < 3:
        return "eof"
    if bs[2] < c["locb"] or c["hicb"] < bs[2]:
        return "invalid"
    if size == 3:
        return ("ok", (bs[0] & c["mask3"]) << 12 | (bs[1] & c["maskx"]) << 6 | (bs[2] & c["maskx"]), 3)
    if len(bs) < 4:
        return "eof"
    if bs[3] < c["locb"] or c["hicb"] < bs[3]:
        return "invalid"
    return ("ok", (bs[0] & c["mask4"]) << 18 | (bs[1] & c["maskx"]) << 12 | (bs[2] & c["maskx"]) << 6 | (bs[3] & c["maskx"]), 4)
