"""C08 — the emitted lexer is valid stand-alone Go encoding exactly the token automaton."""
import json
import os
import shutil
import tempfile

from . import common as C

PROP = "C08"

INST_V = """(* GENERATED: emitted lexers read back and compared with the automaton emerge computed *)
From Coq Require Import String List Bool NArith.
From Verif Require Import Base.CharSet Reg.Dfa Reg.Emitted Reg.MaxMunch.
Import ListNotations.
Local Open Scope N_scope.
Local Open Scope string_scope.
Definition insts : list (dfa * etable * dfa * etable) := [
%s
].
Definition M := Eval vm_compute in mismatches emitted_ok 0 insts.
Print M.
"""

SPECS = {
    "calc": 'grammar calc;\nNUM = /[0-9]+/;\nID = $ID;\nstart = expr;\nexpr = expr "+" expr | "(" expr ")" | NUM | ID;\n@left "+";\n',
    "quotes": 'grammar q;\nQUOT = "\'";\nBSL = "\\\\";\nDQ = "\\"";\nstart = QUOT BSL DQ "`" "if";\n',
    "controls": 'grammar c;\nWS = $WS;\nSTR = $STRING;\nCOMMENT = $COMMENT;\nstart = STR;\n',
    "nonascii": 'grammar n;\nGREEK = /\\p{Greek}+/;\nEURO = /\\x20AC/;\nstart = GREEK EURO;\n',
    "astral": 'grammar astral;\nARROW = /\\x2192/;\nSMILE = /\\x0001F600+/;\nHIGH = /[\\x0001F300-\\x0001F5FF]/;\nNONCH = /\\x0000FFFE/;\nstart = ARROW SMILE HIGH NONCH;\n',
    "keywords": 'grammar k;\nID = /[a-z]+/;\nstart = "if" ID "then" ID "else" ID | "iff" | "i";\n',
    "numbers": 'grammar m;\nNUM = $NUMBER;\nstart = NUM {"," NUM};\n',
    "many": 'grammar many;\nA1 = /a+/;\nB1 = /b+c?/;\nC1 = /[x-z]{2,3}/;\nstart = A1 B1 C1 "(" ")" "[" "]" "{" "}" ";" "=" "|" "<" ">" "~" "^" "%" "#" "@" "!" "?" ":" "." "," "-" "*" "/" "&";\n',
    "shadowed": 'grammar s;\nKW = /i[f]/;\nID = /[a-z]+/;\nstart = KW "if" ID | "x";\n',
    "nullable": 'grammar nl;\nNUM = /[0-9]*/;\nID = /[a-c]+/;\nstart = {NUM | ID | "if"};\n',
    "nullable2": 'grammar nm;\nOPT = /(ab)*/;\nXS = /x?y?/;\nstart = OPT XS;\n',
    "tab-newline": 'grammar t;\nTABS = /\\x09+/;\nNL = /\\x0A/;\nstart = TABS NL;\n',
}
# how many states one terminal owns is a parameter of the rendering too (lists of states are written in full): a keyword of n
# letters next to an identifier pattern gives the identifier exactly n accepting states, for every n up to 33
for _n in list(range(1, 34)):
    SPECS["owns%d" % _n] = 'grammar o%d;\nID = /[a-z]+/;\nstart = "%s" ID;\n' % (_n, "".join(chr(ord("a") + (i * 7) % 26) for i in range(_n)))


def gen_random_spec(rng, i):
    pats = ["/[a-z]+/", "/[0-9]+/", "/[A-Z][a-z]*/", "/\\x27[a-z]\\x27/", "/\\\\[a-z]/", "/\\x5C\\x5C/", "/[!-\\/]/", "/[\\x80-\\xFF]/", "/\\x0100+/", "/\\x0001F600/", "/[\\x0000FFF0-\\x00010010]/", "$ID", "$NUMBER",
            "$STRING", "$WS", "/\\x22[^\\x22]*\\x22/", "/[\\x09\\x0A\\x0D]+/", "/\\x7F/", "/\\x60+/"]
    lits = ['"+"', '"\'"', '"\\\\"', '"\\""', '"if"', '"else"', '"=="', '"`"', '"$"', '"%"', '"~"']
    n = rng.randint(1, 5)
    decls, uses = [], []
    for k, p in enumerate(rng.sample(pats, n)):
        decls.append("T%dX = %s;" % (k, p))
        uses.append("T%dX" % k)
    for l in rng.sample(lits, rng.randint(0, 4)):
        uses.append(l)
    return "grammar r%d;\n%s\nstart = %s;\n" % (i, "\n".join(decls), " ".join(uses))


def emerge_binary():
    """The CLI built from /repo's working tree (cached with the hook)."""
    d = os.path.dirname(C.hook_path())
    exe = os.path.join(d, "emerge")
    with C.flock("emerge-bin"):
        if not os.path.exists(exe):
            p = C.run(["go", "build", "-o", exe, "./cmd/emerge"], cwd=C.REPO, env=C.go_env())
            if p.returncode != 0:
                raise C.BuildError("emerge build failed:\n" + p.stderr)
    return exe


def generate(exe, scratch, name, text):
    """Runs the CLI; returns (exit status, package dir or None, output)."""
    src = os.path.join(scratch, name + ".grammar")
    with open(src, "w") as f:
        f.write(text)
    out = os.path.join(scratch, "out_" + name)
    os.makedirs(out, exist_ok=True)
    p = C.run([exe, "-out", out, src], timeout=120)
    pkgs = [os.path.join(out, d) for d in os.listdir(out)]
    return p.returncode, (pkgs[0] if pkgs else None), p.stdout + p.stderr


def vet_package(pkg):
    """Type-check the emitted package with the Go front end, standard library only."""
    with open(os.path.join(pkg, "go.mod"), "w") as f:
        f.write("module emitted\n\ngo 1.23\n")
    env = C.go_env_local()
    p = C.run(["go", "vet", "./..."], cwd=pkg, env=env, timeout=300)
    imports = set()
    for fn in os.listdir(pkg):
        if fn.endswith(".go"):
            src = open(os.path.join(pkg, fn)).read()
            i = src.find("import (")
            if i >= 0:
                for line in src[i:src.find(")", i)].split("\n")[1:]:
                    line = line.strip().strip('"')
                    if line:
                        imports.add(line.split()[-1].strip('"'))
    nonstd = sorted(x for x in imports if "." in x.split("/")[0])
    return p.returncode == 0 and not nonstd, (p.stdout + p.stderr)[-1500:] + (" non-standard imports: %r" % nonstd if nonstd else "")


def dfa_term(edges, start):
    return "{| d_start := %d; d_edges := [%s] |}" % (start, "; ".join("(%d,%d,%d,%d)" % tuple(e) for e in edges))


def table_term(pairs):
    return "[%s]" % "; ".join("(%d, %s)" % (q, C.coq_string(t)) for q, t in sorted(pairs))


def check(tier):
    rep = C.Report(PROP, tier, "translation_validation")
    rng = C.rng_for(PROP)
    ok, log = C.coq_make(["theories/Props/C08.vo"])
    for t in ["emitted_encodes_exactly_the_automaton", "check_is_sharp"]:
        rep.obligation("Props/C08.v: " + t, ok)
    rep.cov["print_assumptions"] = "Closed under the global context x%d" % log.count("Closed under the global context") if ok else "n/a"
    C.build_tools()
    exe = emerge_binary()
    specs = dict(SPECS)
    for i in range(6 if tier == "quick" else 150):
        specs["rand%d" % i] = gen_random_spec(rng, i)
    dumps = C.hook_map([{"op": "spec_dfa", "text": t} for t in specs.values()], timeout_each=30)
    scratch = tempfile.mkdtemp(prefix="verif-c08-")
    insts, meta, problems, dist = [], [], [], {"generated": 0, "spec_rejected": 0, "vet_ok": 0, "terminals_without_state": 0}
    try:
        # grammar names that are Go keywords, predeclared identifiers or otherwise no package names: whatever emerge decides, a package it
        # DOES emit must be valid Go (refusing the name before anything is written is the other acceptable outcome)
        for gname in ["range", "go", "type", "select", "func", "string", "len", "nil", "init", "main", "Type", "x_1"]:
            rc, pkg, out = generate(exe, scratch, "name_" + gname, 'grammar %s;\nID = /[a-z]+/;\nstart = ID "+" ID;\n' % gname)
            dist["odd_names"] = dist.get("odd_names", 0) + 1
            if rc == 0 and pkg is not None:
                vok, vout = vet_package(pkg)
                if not vok:
                    problems.append(("name_" + gname, 'grammar %s;\nID = /[a-z]+/;\nstart = ID "+" ID;\n' % gname,
                                     "a package was emitted under this grammar name and it is not valid Go: " + vout))
            elif rc == 0:
                problems.append(("name_" + gname, "grammar %s; ..." % gname, "status 0 but no package"))
        for (name, text), dump in zip(specs.items(), dumps):
            if dump.get("outcome") != "ok" or "dfa" not in dump:
                dist["spec_rejected"] += 1
                continue
            rc, pkg, out = generate(exe, scratch, name, text)
            if rc != 0 or pkg is None:
                problems.append((name, text, "the specification is accepted but emerge did not generate the package: exit %d %s" % (rc, out[-300:])))
                continue
            dist["generated"] += 1
            vok, vout = vet_package(pkg)
            if not vok:
                problems.append((name, text, "the emitted package does not type-check with the standard library only: " + vout))
                continue
            dist["vet_ok"] += 1
            p = C.run([os.path.join(C.BIN, "gotrans"), "lexer", os.path.join(pkg, "lexer.go")])
            if p.returncode != 0:
                problems.append((name, text, "the emitted lexer.go cannot be read back: " + p.stderr[-400:]))
                continue
            em = json.loads(p.stdout)
            if not all(32 <= ord(ch) < 127 for e in em["eval"] for ch in e["kind"]):
                continue
            etab = [(e["state"], e["kind"]) for e in em["eval"]]
            dtab = [(q, t) for t, qs in dump["term_map"].items() for q in qs]
            dist["terminals_without_state"] += sum(1 for d in dump["definitions"] if not dump["term_map"].get(d[0]))
            insts.append((em["edges"], etab, dump["dfa"]["trans"], dtab, dump["dfa"]["start"]))
            meta.append((name, text))
    finally:
        shutil.rmtree(scratch, ignore_errors=True)
    paths, offs = [], []
    shard = 10
    for o in range(0, len(insts), shard):
        path = os.path.join(C.GEN, "inst_C08_%d.v" % (o // shard))
        with open(path, "w") as f:
            f.write(INST_V % ";\n".join("(%s, %s, %s, %s)" % (dfa_term(e, 0), table_term(et), dfa_term(d, st), table_term(dt))
                                          for e, et, d, dt, st in insts[o:o + shard]))
        paths.append(path)
        offs.append(o)
    bad, cerr = [], None
    for (okc, out), o in zip(C.coqc_many(paths, timeout=600), offs):
        m = C.parse_mismatches(out) if okc else None
        if m is None:
            cerr = out
            break
        bad.extend(o + x for x in m)
    rep.cov["programs"] = len(insts)
    rep.cov["disagreements_checked"] = len(bad)
    rep.cov["evaluations"] = dist["generated"]
    rep.cov["distinct_nontrivial"] = len(insts)
    rep.cov["rule"] = ("specifications whose automata contain quotes, backslashes, control characters ($WS, tab, newline), non-ASCII code points, "
                       "keywords/prefix chains, many punctuation literals, plus random ones; each package is generated by the real CLI, type-checked by "
                       "the Go front end (standard library only), and its advanceDFA/evalDFA are read back and compared with the dumped automaton "
                       "and terminal map for every state and every code point (kernel-evaluated)")
    rep.cov["input_distribution"] = dist
    rep.cov["samples"] = [{"name": n, "text": t} for n, t in meta[:3]]
    if cerr is not None:
        rep.obligation("instance files compile", False)
        rep.violation("instances", {"theorem": "gen/inst_C08_*.v does not compile", "log": cerr[-2500:]}, no_input=True)
        return rep.finish()
    rep.obligation("every accepted specification yields a package that type-checks with the standard library only (%d packages)" % dist["generated"],
                   not problems)
    rep.obligation("emitted advanceDFA/evalDFA == dumped automaton/terminal map for %d packages (all states x all code points)" % len(insts), not bad)
    for name, text, why in problems[:3]:
        rep.failure("package", {"package"}, {"input_text": text, "why": why})
    for i in bad[:3]:
        name, text = meta[i]
        e, et, d, dt, st = insts[i]
        diff = first_difference(e, et, d, dt)
        rep.failure("automaton", {"automaton"}, dict({"input_text": text}, **diff))
    if not ok and not rep.violations:
        rep.violation("proof", {"theorem": "Props/C08.v", "log": log[-2500:]}, no_input=True)
    return rep.finish()


def first_difference(e, et, d, dt):
    from .lexmodel import Dfa
    A, B = Dfa(0, e), Dfa(0, d)
    atoms = sorted({0} | A.bounds() | B.bounds())
    for q in sorted(A.states() | B.states()):
        for c in atoms:
            if A.step(q, c) != B.step(q, c):
                return {"state": q, "code_point": c, "emitted_next": A.step(q, c), "automaton_next": B.step(q, c)}
    a, b = dict(et), dict(dt)
    for q in sorted(set(a) | set(b)):
        if a.get(q) != b.get(q):
            return {"state": q, "emitted_terminal": a.get(q), "automaton_terminal": b.get(q)}
    return {"note": "start state differs"}


def replay(path):
    d = json.load(open(path))
    print(json.dumps({k: d[k] for k in d if k not in ("log",)}, indent=1)[:1500])
    return 1
