"""C13 — the result depends only on the token sequence, not on layout, padding or file size."""
import json
import os

from . import common as C
from . import specfam as S
from . import c01
from . import c05
from . import docref
from .lexmodel import Dfa, max_munch

PROP = "C13"
HALF = 4096

READER_V = """(* GENERATED: correspondence of the two-buffer reader model with moorara/algo/lexer/input at small half sizes *)
From Coq Require Import List Bool Arith NArith.
From Verif Require Import Reg.TwoBuf Reg.MaxMunch.
Import ListNotations.
Local Open Scope N_scope.
Fixpoint res_eqb (a b : list (option N)) : bool :=
  match a, b with
  | [], [] => true
  | Some x :: a', Some y :: b' => (x =? y) && res_eqb a' b'
  | None :: a', None :: b' => res_eqb a' b'
  | _, _ => false
  end.
Definition agrees (c : nat * list N * list rop * list (option N)) : bool :=
  let '(n, file, ops, obs) := c in res_eqb (run_ops n (new n file) 0 ops) obs.
Definition cases : list (nat * list N * list rop * list (option N)) := [
%s
].
Definition M := Eval vm_compute in mismatches agrees 0 cases.
Print M.
"""

LAYOUT_V = """(* GENERATED: layouts of one specification — the scanner model yields the same significant tokens *)
From Coq Require Import String List Bool NArith.
From Verif Require Import Reg.Dfa Reg.MaxMunch Emerge.Pipeline.
Import ListNotations.
Local Open Scope N_scope.
Definition sig (text : list N) : list (string * list N) * bool :=
  let '(toks, e) := scan text in
  (map (fun t => (t_kind t, t_lexeme t)) toks, match e with EndEOF => true | _ => false end).
Fixpoint sig_eqb (a b : list (string * list N)) : bool :=
  match a, b with
  | [], [] => true
  | (k, l) :: a', (k', l') :: b' => String.eqb k k' && nlist_eqb l l' && sig_eqb a' b'
  | _, _ => false
  end.
Definition agrees (c : list N * list N) : bool :=
  let '(s1, e1) := sig (fst c) in let '(s2, e2) := sig (snd c) in sig_eqb s1 s2 && Bool.eqb e1 e2.
Definition cases : list (list N * list N) := [
%s
].
Definition M := Eval vm_compute in mismatches agrees 0 cases.
Print M.
"""


COMMENT_CHARS = ["\t", " ", " ", "a", "tail", "of", "=", ";", "|", "\"", "'", "/", "*", "#", "\\", "x1", "{", "}", "<", "@left", "$ID", "~", "!",
                 # a star followed by every kind of character (the state "just saw a star" has its own transitions)
                 "*)", "*(", "**)", "*a", "*9", "* ", "*\t", "*\"", "*=", "*|", "*;", "*.", "*,", "*-", "*_", "*]", "*}", "*>", "*@", "*$", "*~", "*\\", "and/or"]


def random_comment(rng):
    """A comment as documented (// up to the end of the line, or a block; the specification language has no # comments); bodies of tabs, blanks and printable characters
    (text that would be tokens outside a comment)."""
    body = "".join(rng.choice(COMMENT_CHARS) for _ in range(rng.randint(0, 8)))
    k = rng.random()
    if k < 0.55:
        return " //" + body + rng.choice(["\n", "\n", "\r\n", "\r"])      # every documented line end, the lone CR included
    body = body.replace("*/", "* /")
    if rng.random() < 0.5:
        body = body + rng.choice(["\n", "\r\n", "\t"]) + body[::-1].replace("/*", "/ *").replace("*/", "* /")
    return " /*" + body.replace("*/", "* /") + "*/ "


def relayout(rng, toks):
    """Re-lay out a token list (source spellings) with random separators and comments."""
    out = []
    for i, t in enumerate(toks):
        out.append(t)
        sep = rng.choice([" ", "  ", "\n", "\t", "\r\n", "\r", " /* c */ ", " // c\n", " // c\r", "\n\n", " /**/ ", "/* * **/", None, None, None])
        if sep is None:
            sep = random_comment(rng)
        out.append(sep)
    text = "".join(out)
    if rng.random() < 0.5:
        text = text.rstrip() + rng.choice(["", "\n", " ", "\n\n"])
    return text


def spellings(text, doc, dlab):
    """Source spellings of the significant tokens of a text (by the documented scanner)."""
    toks, end = max_munch(doc, dlab, C.codepoints(text) + [10])
    if end != "eof":
        return None
    # recover spellings by re-scanning with positions
    res = []
    cps = C.codepoints(text) + [10]
    i = 0
    n = len(cps)
    while i < n:
        q = doc.start
        j = i
        while j < n:
            t = doc.step(q, cps[j])
            if t is None:
                break
            q = t
            j += 1
        lab = dlab(q)
        if lab is None or j == i:
            return None
        if lab[0] == "tok":
            res.append("".join(chr(c) for c in cps[i:j]))
        i = j
    return res


def lookahead_at_boundary(text, doc, dlab):
    """D14 predicate: some lexeme's look-ahead character (read, then retracted) is the last byte of a buffer half."""
    cps = C.codepoints(text) + [10]
    n = len(cps)
    i = 0
    while i < n:
        q = doc.start
        j = i
        while j < n:
            t = doc.step(q, cps[j])
            if t is None:
                break
            q = t
            j += 1
        # the half that follows must hold more than the terminating newline: at the very end of the text there is nothing
        # a second load of the half could skip
        if j < n and (j + 1) % HALF == 0 and j + 1 < n - 1:
            return True
        if j == i:
            return False
        i = j
    return False


def spec_result(r):
    if r.get("outcome") == "ok" and r.get("spec"):
        sp = r["spec"]
        return ("ok", json.dumps([sp["name"], sp["productions"], sp["definitions"], sp["precedences"]], sort_keys=True))
    msg = r.get("error", "")
    return ("error", "lexical" if "lexical error" in msg else ("syntax" if "unexpected string" in msg else "semantic"))


def check(tier):
    rep = C.Report(PROP, tier, "proof")
    rng = C.rng_for(PROP)
    try:
        c01.regen_all()
    except C.BuildError as e:
        rep.obligation("translate sources", False)
        rep.violation("translator", {"theorem": "generated tables cannot be regenerated", "detail": str(e)}, no_input=True)
        return rep.finish()
    ok, log = C.coq_make(["theories/Props/C13.vo"])
    for t in ["sequential_reading_is_exact", "reading_example", "retract_at_a_half_boundary_refuted", "result_depends_only_on_the_token_sequence",
              "layout_character_in_front", "layout_character_after_a_token", "tokens_are_not_extended_by_layout",
              "leading_layout_does_not_change_the_result", "comments_begin_with_a_slash", "a_slash_does_not_extend_a_token",
              "block_comment_in_front", "line_comment_in_front", "comment_after_a_token", "the_scanner_stops_after_a_block_comment",
              "leading_block_comment_does_not_change_the_result", "comments_exist", "any_layout_changes_leave_the_tokens",
              "any_layout_changes_leave_the_result", "several_changes_example", "positions_are_those_of_the_text_in_front",
              "inserted_text_moves_positions_by_itself"]:
        rep.obligation("Props/C13.v: " + t, ok)
    rep.cov["print_assumptions"] = "Closed under the global context x%d" % log.count("Closed under the global context") if ok else "n/a"
    rep.cov["partial"] = ["retract_at_a_half_boundary_refuted (known finding D14, dependency): the refinement of the reader under "
                          "Retract is not proved; paddings are classified by the look-ahead-at-boundary predicate",
                          "layout invariance of the token stream is evaluated per layout on the scanner model, not proved for all layouts"]
    ref = docref.build_reference()
    doc = Dfa(ref["start"], docref.compress_edges(ref["trans"]))
    dlab = lambda q: ref["labels"].get(q)
    hook = C.Hook()

    # (a) the reader model vs the real reader at small half sizes: random files and operation scripts
    rcases = []
    for _ in range(150 if tier == "quick" else 3000):
        n = rng.randint(1, 6)
        ln = rng.randint(0, 20)
        file = [rng.randint(33, 126) for _ in range(ln)]
        ops, pending = [], 0
        for _ in range(rng.randint(1, 30)):
            if pending > 0 and rng.random() < 0.25:
                ops.append("R")
                pending -= 1
            else:
                ops.append("N")
                pending += 1
        r = hook.call({"op": "reader", "text": "".join(chr(c) for c in file), "n": n, "ops": "".join(ops)})
        if r.get("new") == "eof":
            obs = [None for o in ops if o == "N"]
        else:
            obs = [None if x in ("eof", "err") else x for x in r.get("results", []) if x != "r"]
        # pending bookkeeping in the real reader: a Next at the end of input pushes nothing, so a later R may be a no-op there;
        # scripts that retract after an eof are regenerated without that retract by truncating at the first eof
        if None in obs:
            k = obs.index(None)
            cnt, cut = 0, len(ops)
            for idx, o in enumerate(ops):
                if o == "N":
                    if cnt == k:
                        cut = idx + 1
                        break
                    cnt += 1
            ops, obs = ops[:cut], obs[:k + 1]
        rcases.append((n, file, ops, obs))
    body = ";\n".join("(%d%%nat, %s, [%s], [%s])" % (n, C.coq_nat_list(f), "; ".join("ONext" if o == "N" else "ORetract" for o in ops),
                                                      "; ".join("None" if x is None else "Some %d" % x for x in obs))
                      for n, f, ops, obs in rcases)
    path = os.path.join(C.GEN, "cases_C13_reader.v")
    with open(path, "w") as f:
        f.write(READER_V % body)
    okc, out = C.coqc_file(path)
    rbad = C.parse_mismatches(out) if okc else None
    rep.obligation("correspondence: TwoBuf model == input.Input on %d files x operation scripts (half sizes 1..6)" % len(rcases),
                   rbad is not None and not rbad)
    if rbad is None:
        rep.violation("reader-cases", {"theorem": "gen/cases_C13_reader.v does not compile", "log": out[-2000:]}, no_input=True)
    else:
        for i in rbad[:2]:
            n, fl, ops, obs = rcases[i]
            rep.failure("reader", {"reader"}, {"half_size": n, "file": "".join(chr(c) for c in fl), "ops": "".join(ops), "observed": obs})

    # (b) layouts: the same tokens in another layout give the same derived specification
    # directive lines whose handles are NAMED tokens, with and without the optional semicolons, followed by token definitions: where a
    # line breaks must not decide whether the next TOKEN is one more handle or a new declaration (accepted and rejected ones alike)
    directive_specs = ['grammar g;\n@left PLUS MINUS;\nPLUS = "+";\nMINUS = "-";\nstart = start PLUS start | start MINUS start | "x";\n',
                       'grammar g\n@left PLUS MINUS\nstart = start PLUS start | start MINUS start | "x";\nPLUS = "+"\nMINUS = "-"\n',
                       'grammar g @left PLUS NUM = "n"; PLUS = "+"; start = PLUS NUM;\n',
                       'grammar g; @none ID NUM @left PLUS; ID = $ID; NUM = /[0-9]+/; PLUS = "+"; start = ID PLUS NUM;\n',
                       'grammar g\n@right POW\n@left TIMES DIV\nPOW = "^" TIMES = "*" DIV = "/"\nstart = start POW start | start TIMES start | start DIV start | "n"\n']
    base_specs = directive_specs + directive_specs + [S.gen_wellformed(rng, collide=0.0) for _ in range(12 if tier == "quick" else 150)]
    lcases, layout_bad, nlay = [], [], 0
    layout_pos_bad = []
    for sp in base_specs:
        sps = spellings(sp, doc, dlab)
        if not sps:
            continue
        r0 = spec_result(hook.call({"op": "spec", "text": sp}))
        for _ in range(4 if tier == "quick" else 10):
            variant = relayout(rng, sps)
            nlay += 1
            r1 = spec_result(hook.call({"op": "spec", "text": variant}))
            lcases.append((sp, variant))
            if r0 != r1:
                layout_bad.append((sp, variant, r0[0], r1[0]))
            # positions: offset, line and column of every token are those of the text in front of it in THIS layout
            lt = hook.call({"op": "lex", "text": variant}, timeout=20).get("tokens")
            mt, mend = max_munch(doc, dlab, C.codepoints(variant) + [10])
            if lt is not None and mend == "eof" and [[t[0], t[2], t[3], t[4]] for t in lt] != [[t[0], t[2], t[3], t[4]] for t in mt]:
                layout_pos_bad.append((sp, variant))
    path = os.path.join(C.GEN, "cases_C13_layout.v")
    with open(path, "w") as f:
        f.write(LAYOUT_V % ";\n".join("(%s, %s)" % (C.coq_nat_list(C.codepoints(a)), C.coq_nat_list(C.codepoints(b))) for a, b in lcases))
    okc, out = C.coqc_file(path)
    lbad = C.parse_mismatches(out) if okc else None
    rep.obligation("scanner model: %d re-laid-out texts have the same significant tokens (kernel-evaluated)" % len(lcases),
                   lbad is not None and not lbad)
    rep.obligation("implementation: %d layouts (separators, comments, final newline or none) derive the same specification" % nlay, not layout_bad)
    for sp, variant, a, b in layout_bad[:2]:
        rep.failure("layout", {"layout"}, {"input_text": variant, "base_text": sp, "base_result": a, "variant_result": b})
    rep.obligation("implementation: in every layout the offset, line and column of each token are those of the text in front of it", not layout_pos_bad)
    for sp, variant in layout_pos_bad[:2]:
        rep.failure("layout-position", {"layout-position"}, {"input_text": variant, "base_text": sp,
                                                              "why": "a token's offset/line/column is not the position reached by the text in front of it"})

    # (c) padding sweep: every alignment of the tokens against both half boundaries
    pad_specs = [S.gen_wellformed(rng, collide=0.0) for _ in range(3 if tier == "quick" else 8)]
    pads = list(range(0, 2 * HALF + 65)) if tier != "quick" else (
        list(range(0, 40)) + list(range(HALF - 80, HALF + 40)) + list(range(2 * HALF - 80, 2 * HALF + 65)) + [rng.randint(0, 2 * HALF) for _ in range(60)])
    pad_bad, pad_known, npad = [], [], 0
    pos_bad = []
    for sp in pad_specs:
        r0 = spec_result(hook.call({"op": "spec", "text": sp}))
        t0 = hook.call({"op": "lex", "text": sp}).get("tokens", [])
        for k in pads:
            for padder in ((" " * k), ("\n" * k), ("\r\n" * (k // 2) + " " * (k % 2))) if k % 7 == 0 else ((" " * k),):
                text = padder + sp
                npad += 1
                predicted = lookahead_at_boundary(text, doc, dlab)
                # where the known finding is predicted the reader may even loop forever (a reloaded half at the end of the
                # input leaves forward past the buffer and Lexeme() never terminates): short time limit there
                resp = hook.call({"op": "spec", "text": text}, timeout=(1.5 if predicted else 20))
                if resp.get("outcome") == "slow":
                    r1 = ("hang", "")
                else:
                    r1 = spec_result(resp)
                if r1 != r0:
                    if predicted:
                        pad_known.append((len(padder), padder[:1], r1[0]))
                    else:
                        pad_bad.append((sp, len(padder), padder[:1], r0[0], r1[0]))
                elif k in (1, 17, HALF + 3) and padder.startswith(" ") and not predicted:
                    # positions move by exactly the inserted text
                    t1 = hook.call({"op": "lex", "text": text}, timeout=20).get("tokens", [])
                    exp = [[t[0], t[1], t[2] + k, t[3], t[4] + k if t[3] == 1 else t[4]] for t in t0]
                    if t1 != exp:
                        pos_bad.append((sp, k))
        # total lengths that are exact multiples of the reader's buffer size (and one byte off), with and without a final newline:
        # the end of the file then coincides with the end of a read
        base = sp.rstrip("\n")
        for L in (HALF, 2 * HALF, 3 * HALF, 4 * HALF):
            for d_ in (-1, 0, 1):
                for tail in ("", "\n"):
                    k = L + d_ - len(base.encode("utf-8")) - len(tail)
                    if k < 0:
                        continue
                    # the padding is a comment line and blanks, so that no blank run comes near the size of a half
                    padder = ("// pad\n" * (k // 7)) + " " * (k % 7)
                    text = padder + base + tail
                    npad += 1
                    predicted = lookahead_at_boundary(text, doc, dlab)
                    resp = hook.call({"op": "spec", "text": text}, timeout=(1.5 if predicted else 20))
                    r1 = ("hang", "") if resp.get("outcome") == "slow" else spec_result(resp)
                    if r1 != r0:
                        if predicted:
                            pad_known.append((len(padder), "/", r1[0]))
                        else:
                            pad_bad.append((sp, len(padder), "/", r0[0], r1[0]))
    hook.close()
    rep.obligation("padding sweep: %d paddings give the same specification outside the known finding" % npad, not pad_bad)
    rep.obligation("positions move by exactly the inserted text", not pos_bad)
    kf = rep.match_known({"lookahead-at-half-boundary"})
    for _ in pad_known:
        if kf is not None:
            rep.known_finding(kf)
    if pad_known and kf is None:
        rep.violation("padding", {"padding": pad_known[0][0], "pad_char": pad_known[0][1], "what_fails": "a lexeme's look-ahead character is the last byte of a buffer half"})
    for sp, k, ch, a, b in pad_bad[:3]:
        rep.failure("padding", {"padding"}, {"base_text": sp, "padding": k, "pad_char": ch, "base_result": a, "padded_result": b})
    for sp, k in pos_bad[:2]:
        rep.failure("position", {"position"}, {"base_text": sp, "padding": k})
    rep.cov["evaluations"] = len(rcases) + nlay + npad
    rep.cov["distinct_nontrivial"] = sum(1 for c in rcases if "R" in c[2]) + nlay
    rep.cov["rule"] = ("(a) random files and Next/Retract scripts replayed on the real reader at half sizes 1..6 vs the Coq model; (b) the tokens of "
                       "generated specifications re-laid out with random separators, comments and final newline or none: same derived "
                       "specification; (c) leading padding of every amount in the listed ranges (all of 0..2*4096+64 in the thorough tier), spaces "
                       "and newlines: same result, positions shifted; failures are attributed to the known finding only when a lexeme's "
                       "look-ahead character is the last byte of a half; non-trivial = a script with a Retract, or a layout")
    rep.cov["input_distribution"] = {"reader_scripts": len(rcases), "layouts": nlay, "paddings": npad, "paddings_hitting_known_finding": len(pad_known),
                                     "of_which_hang": sum(1 for x in pad_known if x[2] == "hang")}
    rep.cov["samples"] = [{"half_size": c[0], "file": "".join(chr(x) for x in c[1]), "ops": "".join(c[2])} for c in rcases[:3]]
    if not ok and not rep.violations:
        rep.violation("proof", {"theorem": "Props/C13.v", "log": log[-2500:]}, no_input=True)
    return rep.finish()


def replay(path):
    d = json.load(open(path))
    hook = C.Hook()
    if "padding" in d and "base_text" in d:
        text = (d.get("pad_char") or " ") * d["padding"] + d["base_text"]
        a = spec_result(hook.call({"op": "spec", "text": d["base_text"]}))
        b = spec_result(hook.call({"op": "spec", "text": text}))
        print("base:", a[0], "padded:", b[0], "same:", a == b)
        rc = 0 if a == b else 1
    elif "input_text" in d:
        a = spec_result(hook.call({"op": "spec", "text": d["base_text"]}))
        b = spec_result(hook.call({"op": "spec", "text": d["input_text"]}))
        print("same:", a == b)
        rc = 0 if a == b else 1
    else:
        print("replay names an obligation:", d.get("theorem"))
        rc = 1
    hook.close()
    return rc
