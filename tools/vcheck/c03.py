"""C03 — the combined scanner automaton: exact union, right winner, conflicts iff real."""
import json
import os

from . import common as C
from . import regexfam as R
from . import specfam as S

PROP = "C03"

INST_V = """(* GENERATED: certified instances for C03 — scanner automata dumped from Spec.DFA() *)
From Coq Require Import String List Bool Arith NArith.
From Verif Require Import Base.CharSet Reg.Dfa Reg.Regex Reg.EquivCheck Reg.Pattern Reg.PatSem Reg.PatCheck Reg.Scanner Reg.MaxMunch.
From VerifGen Require Import RuneGo.
Import ListNotations.
Local Open Scope N_scope.
(* a definition: is it a pattern, and its text *)
Definition def_re (d : bool * list N) : option re :=
  if fst d then
    match model escaped ascii_names uni_cats cls_letters rune_classes (snd d) with
    | MOk _ r => Some r
    | _ => None
    end
  else Some (lit_re (snd d)).
Fixpoint all_some {A} (l : list (option A)) : option (list A) :=
  match l with
  | [] => Some []
  | Some x :: t => match all_some t with Some r => Some (x :: r) | None => None end
  | None :: _ => None
  end.
(* observation: None = emerge reported a definition conflict; Some (dfa, finals, term map) otherwise *)
Definition inst := (list (bool * list N) * option (dfa * list N * list (list N)))%%type.
Definition inst_ok (i : inst) : bool :=
  let '(defs, obs) := i in
  match all_some (map def_re defs) with
  | None => false
  | Some rs =>
    let lits := map (fun d : bool * list N => negb (fst d)) defs in
    match obs with
    | Some (d, finals, tm) => scanner_ok d finals tm lits rs
    | None => match conflict_witness lits rs with Some _ => true | None => false end
    end
  end.
Definition insts : list inst := [
%s
].
Definition M := Eval vm_compute in mismatches inst_ok 0 insts.
Print M.
"""

WIT_V = """From Coq Require Import String List Bool Arith NArith.
From Verif Require Import Base.CharSet Reg.Dfa Reg.Regex Reg.EquivCheck Reg.Pattern Reg.PatSem Reg.PatCheck Reg.Scanner Reg.MaxMunch.
From VerifGen Require Import RuneGo.
Import ListNotations.
Local Open Scope N_scope.
Definition def_re (d : bool * list N) : re :=
  if fst d then
    match model escaped ascii_names uni_cats cls_letters rune_classes (snd d) with
    | MOk _ r => r
    | _ => Nul
    end
  else lit_re (snd d).
Definition inst := (list (bool * list N) * option (dfa * list N * list (list N)))%%type.
(* for a failing instance: a text on which the dumped automaton / verdict is wrong, and what each definition says about it *)
Definition explain (i : inst) : option (list N * list bool) :=
  let '(defs, obs) := i in
  let rs := map def_re defs in
  let lits := map (fun d : bool * list N => negb (fst d)) defs in
  match obs with
  | Some (d, finals, tm) =>
    match witness d rs (okp_scanner lits finals tm) Scanner.fuel with
    | Some w => Some (w, map (fun r => matchb r w) rs)
    | None => None
    end
  | None => None
  end.
Definition insts : list inst := [
%s
].
Definition W := Eval vm_compute in map explain insts.
Print W.
"""

FAMILIES = [
    # escapes at the edges of a literal (a trailing escaped quote; an escaped backslash next to an escaped quote: two different texts)
    ['"\\""', "/[a-z]+/", '"<"'],
    ['"\\\\"', '"\\""'],
    ['"a\\""', '"\\"a"', '"a"'],
    # two literals written differently that denote the same characters (an escaped ordinary character): a real conflict, with
    # and without a pattern that matches the text too
    ['"+"', '"\\+"', "/[a-z]+/"],
    ['"a"', '"\\a"'],
    ['"if"', '"i\\f"', "/[a-z]+/"],
    # disjoint
    ['"if"', '"then"', "/[0-9]+/"],
    # keyword vs identifier
    ['"if"', "/[a-z]+/"],
    ['"if"', '"iff"', '"iffy"', "/[a-z]+/"],
    # identical-language pairs (conflict)
    ["/[a-z]+/", "/[a-z][a-z]*/"],
    # overlapping patterns without a literal (conflict) / with one
    ["/[a-c]+/", "/[b-d]+/"],
    ["/[a-c]+/", "/[b-d]+/", '"bc"'],
    # nested patterns
    ["/[0-9]+/", "/[0-9]+(\\.[0-9]+)?/"],
    # two literals cannot clash unless equal text; literal inside two patterns
    ['"ab"', "/a[a-z]/", "/[a-z]b/"],
    # escapes in literals
    ['"a\\"b"', '"\\\\"', "/[a-z]+/"],
    ['"+"', '"++"', '"+="', "/[+*]+/"],
    # predefined
    ["$ID", '"while"', "$NUMBER"],
    ["$ID", "$LETTER"],
    ["$WS", '" "'] if False else ["$WS", "/[ ]+/"],
    ["$STRING", "$COMMENT", "$NUMBER", "$ID"],
    # patterns matching the empty text: the start state is accepting
    ["/a*/", "/b+/"],
    ["/a*/", "/b*/"],
    ["/(bc)?/", '"x"', "/[0-9]*/"],
    ["/a*/", '"a"', "/[a-b]*/"],
    ["/x?/", "/y?/", '"xy"'],
    # a pattern whose whole language is taken by string literals: it ends up owning no state, which is no conflict
    ["/\\+/", '"+"', "/[0-9]+/"],
    ["/true|false/", '"true"', '"false"', "/[0-9]+/"],
    ["/i[f]/", '"if"', "/[a-z]+/"] if False else ["/i[f]/", '"if"', "/[0-9]+/"],
    ["/ab?/", '"a"', '"ab"'],
    # a pattern that is a plain word is still a pattern: against another pattern it conflicts, only a LITERAL breaks the tie
    ["/if/", "/[a-z]+/"],
    ["/if/", "/[a-z]+/", '"if"'],
    ["/abc/", "/ab[c]/"],
    ["/a/", "/[ab]/", "/b/"],
    ["/00/", "/[0-9]+/", '"0"'],
]

RAND_PATTERNS = ["/[a-z]+/", "/[a-c]+/", "/[b-d]+/", "/[0-9]+/", "/[0-9a-f]+/", "/a*b/", "/ab*/", "/(ab)+/", "/a|b|ab/", "/[a-z][a-z0-9]*/",
                 "/x?y/", "/a*/", "/[0-9]*/", "/(ab)?/", "/if|else/", "/if/", "/ab/", "/a/", "/0/", "/abc/", "/[^a]b/", "/\\d+/", "/\\w+/", "/a{2,3}/", "$ID", "$NUMBER", "$LETTER", "$DIGIT"]
RAND_LITERALS = ['"if"', '"else"', '"ab"', '"a"', '"b"', '"abc"', '"0"', '"00"', '"xy"', '"y"', '"aa"', '"aaa"', '"+"', '"a\\"b"',
                 # escapes at the edges of the literal: a leading / trailing escaped quote, a trailing escaped backslash
                 '"\\""', '"a\\""', '"\\"a"', '"\\\\"', '"a\\\\"']


def spec_of_defs(defs, named=False, refer="all"):
    """named: string literals are declared as named tokens (NAME = "text";) instead of being written inline.
    refer="first": only the first definition is referred to by a rule; the others are declared and used nowhere (they are
    definitions of the scanner all the same)."""
    lines = ["grammar g;"]
    uses = []
    for i, d in enumerate(defs):
        if d.startswith('"') and not named:
            uses.append(d)
        elif d.startswith('"'):
            name = "LIT%d" % i
            lines.append("%s = %s;" % (name, d))
            uses.append(name)
        else:
            name = "TK%d" % i
            lines.append("%s = %s;" % (name, d))
            uses.append(name)
    lines.append("start = %s;" % " ".join(uses if refer == "all" else uses[:1]))
    return "\n".join(lines) + "\n"


def inst_term(defs, obs):
    ds = "[%s]" % "; ".join("(%s, %s)" % ("true" if r else "false", C.coq_nat_list(C.codepoints(v))) for _, v, r in defs)
    if obs is None:
        return "(%s, None)" % ds
    dfa, finals, tm = obs
    d = "{| d_start := %d; d_edges := [%s] |}" % (dfa["start"], "; ".join("(%d,%d,%d,%d)" % tuple(e) for e in dfa["trans"]))
    return "(%s, Some (%s, %s, [%s]))" % (ds, d, C.coq_nat_list(finals), "; ".join(C.coq_nat_list(x) for x in tm))


STR_V = """(* GENERATED: stringToDFA - the automaton of a string definition vs the model of Reg/StringDfa.v *)
From Coq Require Import List Bool NArith.
From Verif Require Import Base.CharSet Reg.Dfa Reg.StringDfa Reg.MaxMunch.
Import ListNotations.
Local Open Scope N_scope.
Definition edge_eqb (a b : edge) : bool :=
  (e_from a =? e_from b) && (e_lo a =? e_lo b) && (e_hi a =? e_hi b) && (e_to a =? e_to b).
Fixpoint edges_eqb (a b : list edge) : bool :=
  match a, b with [], [] => true | x :: a', y :: b' => edge_eqb x y && edges_eqb a' b' | _, _ => false end.
Fixpoint ns_eqb (a b : list N) : bool :=
  match a, b with [], [] => true | x :: a', y :: b' => (x =? y) && ns_eqb a' b' | _, _ => false end.
Definition agrees (c : list N * (dfa * list N)) : bool :=
  let '(v, (d, fin)) := c in
  let m := string_dfa v in
  (d_start (fst m) =? d_start d) && edges_eqb (d_edges (fst m)) (d_edges d) && ns_eqb (snd m) fin.
Definition cases : list (list N * (dfa * list N)) := [
%s
].
Definition M := Eval vm_compute in mismatches agrees 0 cases.
Print M.
"""


def string_values(rng, tier):
    """Values of string definitions as the scanner hands them over (the text between the quotes): plain, with escaped quotes and
    backslashes, a backslash before an ordinary character, a trailing backslash, non-ASCII, repeated characters, the empty value."""
    vals = ["", "a", "if", "aa", "==", "a\\\"b", "\\\\", "\\\\\\\\", "a\\", "\\a", "\\n", "x\\\"", "\\\"\\\"", "é", "→x", "\U0001F600!", "a b", "\t", "''", "/*", "a\\\\b\\\"c\\"]
    alphabet = ["a", "b", "\\", "\"", "é", " "]
    for _ in range(40 if tier == "quick" else 600):
        vals.append("".join(rng.choice(alphabet) for _ in range(rng.randint(1, 8))))
    return list(dict.fromkeys(vals))


def check(tier):
    rep = C.Report(PROP, tier, "translation_validation")
    rng = C.rng_for(PROP)
    try:
        R.regen()
    except C.BuildError as e:
        rep.obligation("translate regex tables", False)
        rep.violation("translator", {"theorem": "gen/RuneGo.v cannot be regenerated", "detail": str(e)}, no_input=True)
        return rep.finish()
    ok, log = C.coq_make(["theories/Props/C03.vo"])
    for t in ["scanner_is_exact_union_with_right_winner", "no_conflict_means_none_exists", "reported_conflict_is_real",
              "string_literal_denotes_its_characters", "automaton_of_a_string_definition_accepts_exactly_the_literal", "winner_examples"]:
        rep.obligation("Props/C03.v: " + t, ok)
    rep.cov["print_assumptions"] = "Closed under the global context x%d" % log.count("Closed under the global context") if ok else "n/a"

    # ---- stringToDFA: the automaton of a string definition == the chain automaton of the model, edge for edge
    svals = string_values(rng, tier)
    sres = C.hook_map([{"op": "string_dfa", "value": C.codepoints(v)} for v in svals], timeout_each=10)
    sterms, smeta = [], []
    for v, r in zip(svals, sres):
        d = r.get("dfa", {})
        if r.get("outcome") != "ok" or "trans" not in d:
            continue
        sterms.append("(%s, ({| d_start := %d; d_edges := [%s] |}, [%s]))" % (
            C.coq_nat_list(C.codepoints(v)), d["start"], "; ".join("(%d,%d,%d,%d)" % tuple(e) for e in d["trans"]), "; ".join(str(x) for x in d["finals"])))
        smeta.append(v)
    spath = os.path.join(C.GEN, "cases_C03s.v")
    with open(spath, "w") as f:
        f.write(STR_V % ";\n".join(sterms))
    (sok, sout), = C.coqc_many([spath], 300)
    sbad = C.parse_mismatches(sout) if sok else None
    if sbad is None and not sok and not sout.strip():
        rep.cov["string_definitions_undecided_slow"] = len(sterms)
    elif sbad is None:
        rep.obligation("string-definition cases compile", False)
        rep.violation("cases", {"theorem": "gen/cases_C03s.v does not compile", "log": sout[-2500:]}, no_input=True)
    else:
        rep.obligation("stringToDFA: the automaton of a string definition is the model's chain automaton on %d values (of %d)" % (len(sterms), len(svals)),
                       not sbad and len(sterms) == len(svals))
        for i in sbad[:2]:
            v = smeta[i]
            un, k = [], 0
            cps = C.codepoints(v)
            while k < len(cps):
                if cps[k] == 92 and k + 1 < len(cps):
                    k += 1
                un.append(cps[k])
                k += 1
            rep.failure("string-dfa", {"string-dfa"}, {"value": v, "value_codepoints": cps, "string_codepoints": un,
                                                       "note": "the automaton built for this string definition is not the chain of its characters; "
                                                               "the characters of the literal (escapes resolved) are the string to try"})
    rep.cov["string_definitions"] = len(sterms)

    sets = [list(f) for f in FAMILIES]
    for _ in range(40 if tier == "quick" else 1500):
        k = rng.randint(1, 6)
        s = []
        for _ in range(k):
            s.append(rng.choice(RAND_PATTERNS) if rng.random() < 0.6 else rng.choice(RAND_LITERALS))
        sets.append(list(dict.fromkeys(s)))
    # every family twice: literals written inline, and literals declared as named tokens (name and text differ)
    with_lits = [s_ for s_ in sets if any(d.startswith('"') for d in s_)]
    multi = [s_ for s_ in sets if len(s_) >= 2][: (40 if tier == "quick" else 600)]
    texts = [spec_of_defs(s_) for s_ in sets] + [spec_of_defs(s_, named=True) for s_ in with_lits] + \
            [spec_of_defs(s_, named=True, refer="first") for s_ in multi]
    sets = sets + with_lits + multi
    res = C.hook_map([{"op": "spec_dfa", "text": t} for t in texts], timeout_each=30)
    # one text used as a string in one specification and as a pattern in another, both orders, in ONE process one after the other:
    # each scanner is judged on its own definitions like any other (what an earlier specification was must not matter)
    hist_sets = [['"a+"', "/[b-z]+/"], ["/a+/", '"b"'], ["/x.y/", '"q"'], ['"x.y"', "/[a-z]+/"], ['"a+"', "/[b-z]+/"], ['"if"', "/[0-9]+/"], ["/if/", '"0"'], ['"if"', "/[a-z]+/"]]
    hist_texts = [spec_of_defs(s_) for s_ in hist_sets]
    res = C.hook_batch([{"op": "spec_dfa", "text": t} for t in hist_texts]) + res
    sets = hist_sets + sets
    texts = hist_texts + texts
    insts, meta, dist = [], [], {"accepted": 0, "conflict": 0, "spec_rejected": 0, "nul_set_skipped": 0, "slow": 0}
    other_errors, value_bad = [], []
    for s, t, r in zip(sets, texts, res):
        if r.get("outcome") == "slow":
            dist["slow"] += 1
            continue
        if r.get("outcome") != "ok":
            dist["spec_rejected"] += 1
            continue
        defs = [(d[0], d[1], bool(d[2])) for d in r["definitions"]]
        # the definitions the scanner is built from must carry the text as WRITTEN (between the quotes / slashes, escapes untouched):
        # the instance below is judged against what emerge recorded, so a value garbled on the way would go unnoticed otherwise
        written = sorted((d[1:-1], not d.startswith('"')) for d in s if d[0] in '"/')       # predefined names expand (C07)
        recorded = sorted((v, isre) for _, v, isre in defs)
        lits_ok = sorted(w for w in written if not w[1]) == sorted(x for x in recorded if not x[1])
        pats_ok = all(w in recorded for w in written if w[1])
        if not (lits_ok and pats_ok):
            value_bad.append((s, t, {"written": written, "recorded": recorded}))
        if "dfa_error" in r:
            if "conflicting definitions" not in r["dfa_error"]:
                if "invalid regular expression" in r["dfa_error"]:
                    dist["spec_rejected"] += 1
                else:
                    # the patterns are valid and no conflict is reported: the scanner must exist
                    other_errors.append((s, t, r["dfa_error"]))
                continue
            dist["conflict"] += 1
            insts.append((defs, None))
        else:
            tm = [r["term_map"].get(d[0], []) for d in defs]
            dist["accepted"] += 1
            insts.append((defs, (r["dfa"], r["dfa"]["finals"], tm)))
        meta.append((s, t, r))
    paths, offs = [], []
    shard = 12
    for o in range(0, len(insts), shard):
        path = os.path.join(C.GEN, "inst_C03_%d.v" % (o // shard))
        with open(path, "w") as f:
            f.write(INST_V % ";\n".join(inst_term(*i) for i in insts[o:o + shard]))
        paths.append(path)
        offs.append(o)
    bad, cerr = [], None
    for (okc, out), o in zip(C.coqc_many(paths, timeout=900), offs):
        m = C.parse_mismatches(out) if okc else None
        if m is None:
            cerr = out
            break
        bad.extend(o + x for x in m)
    rep.cov["programs"] = len(insts)
    rep.cov["disagreements_checked"] = len(bad)
    rep.cov["evaluations"] = len(insts)
    rep.cov["distinct_nontrivial"] = sum(1 for d, _ in insts if len(d) >= 2)
    rep.cov["rule"] = ("definition sets of 1-6 entries: disjoint, identical-language pairs, keyword vs identifier, prefix chains, nested patterns, "
                       "two overlapping patterns with and without a tie-breaking literal, literals with escaped quotes/backslashes, predefined "
                       "patterns; each dumped (automaton, terminal map) is certified by the proved product check for ALL texts; each reported "
                       "conflict is matched by a verified conflicting text; non-trivial = at least two definitions")
    rep.cov["input_distribution"] = dist
    rep.cov["samples"] = [{"definitions": m[0], "verdict": "conflict" if "dfa_error" in m[2] else "automaton"} for m in meta[:5]]
    if cerr is not None:
        rep.obligation("instance files compile", False)
        rep.violation("instances", {"theorem": "gen/inst_C03_*.v does not compile", "log": cerr[-3000:]}, no_input=True)
        return rep.finish()
    # NUL-set patterns (known finding D3 of C02) make the per-definition expression differ from the documented one, but the
    # instance check uses the code-faithful expression, so they are certified like the others.
    rep.obligation("certified instances: %d scanner automata / conflict verdicts" % len(insts), not bad)
    rep.obligation("the definitions the scanner is built from carry the strings and patterns as written", not value_bad)
    for s_, t_, d_ in value_bad[:3]:
        lit = next((w for w in d_["written"] if w not in d_["recorded"] and not w[1]), None)
        payload = {"definitions": s_, "input_text": t_, "difference": d_,
                   "why": "a definition's value is not the text written between the quotes / slashes"}
        if lit is not None:
            cps, un, k = C.codepoints(lit[0]), [], 0
            while k < len(cps):
                if cps[k] == 92 and k + 1 < len(cps):
                    k += 1
                un.append(cps[k])
                k += 1
            payload["string_codepoints"] = un
            payload["note"] = "the characters of the written literal: the scanner must accept exactly this text for it"
        rep.failure("definition-value", {"definition-value"}, payload)
    rep.obligation("a scanner is built whenever the patterns are valid and no conflict is reported", not other_errors)
    for s_, t_, e_ in other_errors[:3]:
        rep.failure("scanner-error", {"scanner-error"}, {"definitions": s_, "input_text": t_, "reported": e_[:400],
                    "why": "every pattern is valid and no two definitions conflict, yet Spec.DFA returns an error"})
    if bad:
        explain(rep, [(insts[i], meta[i]) for i in bad[:12]])
    if not ok and not rep.violations:
        rep.violation("proof", {"theorem": "Props/C03.v", "log": log[-2500:]}, no_input=True)
    return rep.finish()


def explain(rep, items):
    from .c02 import parse_coq_value
    path = os.path.join(C.GEN, "witness_C03.v")
    with open(path, "w") as f:
        f.write(WIT_V % ";\n".join(inst_term(*i) for i, _ in items))
    okc, out = C.coqc_file(path)
    ws = None
    if okc:
        i = out.find("W = ")
        j = out.rfind(": list")
        try:
            ws = parse_coq_value(out[i + 4:j])
        except Exception:
            ws = None
    reported = 0
    for k, ((defs, obs), (s, t, r)) in enumerate(items):
        w = ws[k] if ws and k < len(ws) else None
        if obs is None:
            rep.failure("conflict", {"spurious-conflict"}, {"definitions": s, "input_text": t, "reported": r.get("dfa_error", "")[:400],
                                                            "note": "emerge reports a conflict but no text is matched by two patterns without a single literal"})
            reported += 1
        elif w is not None:
            word, matches = w[1]
            rep.failure("owner", {"owner"}, {"definitions": s, "input_text": t, "string_codepoints": word,
                                             "string": "".join(chr(c) for c in word),
                                             "definitions_matching": [d[0] for d, m in zip(defs, matches) if m],
                                             "term_map": r.get("term_map"),
                                             "note": "on this text the automaton's state is attributed to the wrong terminal / accepts wrongly / a conflict went unreported"})
            reported += 1
        else:
            rep.failure("instance", {"instance"}, {"definitions": s, "input_text": t}, no_input=True)
            reported += 1
        if reported >= 3:
            break


def replay(path):
    d = json.load(open(path))
    if "input_text" not in d:
        print("replay names an obligation:", d.get("theorem"))
        return 1
    r = C.hook_batch([{"op": "spec_dfa", "text": d["input_text"]}])[0]
    print("now:", "conflict" if "dfa_error" in r else "automaton", r.get("term_map"), r.get("dfa_error", "")[:200])
    return 1
