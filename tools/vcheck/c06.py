"""C06 — the LALR(1) table emerge builds for a user grammar parses exactly its language, per directives."""
import json
import os

from . import common as C
from . import lrfam as L

PROP = "C06"

TEXTBOOK = {
    "slr-expr": 'grammar g; start = e; e = e "+" t | t; t = t "*" f | f; f = "(" e ")" | "id";',
    "lalr-not-slr": 'grammar g; start = l "=" r | r; l = "*" r | "id"; r = l;',
    "lr1-not-lalr": 'grammar g; start = "a" x "d" | "b" y "d" | "a" y "e" | "b" x "e"; x = "c"; y = "c";',
    "dangling-else": 'grammar g; start = s; s = "if" "e" "then" s | "if" "e" "then" s "else" s | "x";',
    "dangling-else-resolved": 'grammar g; @right "else" "then"; start = s; s = "if" "e" "then" s | "if" "e" "then" s "else" s | "x";',
    "ambiguous-expr": 'grammar g; start = e; e = e "+" e | e "*" e | "id";',
    "dangling-else-empty-handle": 'grammar ifelse; @right "else" <else_part = >; start = stmt; stmt = "if" "c" "then" stmt else_part | "x"; else_part = "else" stmt | ;',
    "dangling-else-empty-handle-two-lines": 'grammar ifelse; @left "else"; @left <else_part = >; start = stmt; stmt = "if" "c" "then" stmt else_part | "x"; else_part = "else" stmt | ;',
    "rule-handle-alternatives-first": 'grammar g; @left <e = e e | e o e>; @left "x" "(" "+" "-"; start = e; e = e e | e o e | "x" | "(" e ")"; o = "+" | "-";',
    "rule-handle-alternatives-later": 'grammar g; @left "x" <e = e e | e o e>; @left "(" "+" "-"; start = e; e = e e | e o e | "x" | "(" e ")"; o = "+" | "-";',
    "ambiguous-resolved": 'grammar g; @left "*"; @left "+"; start = e; e = e "+" e | e "*" e | "(" e ")" | "id";',
    "right-assoc": 'grammar g; @right "^"; @left "*"; @left "+"; start = e; e = e "+" e | e "*" e | e "^" e | "id";',
    "nonassoc": 'grammar g; @none "<"; @left "+"; start = e; e = e "+" e | e "<" e | "id";',
    "inherently-ambiguous": 'grammar g; start = a b | c d; a = "x" a "y" | ; b = "z" b | ; c = "x" c | ; d = "y" d "z" | ;',
    "epsilon-rules": 'grammar g; start = a b "c"; a = "a" | ; b = "b" | ;',
    "lists": 'grammar g; start = {item ";"} [tail]; item = "i" | "(" start ")"; tail = "t";',
    "reduce-reduce": 'grammar g; start = a "x" | b "x"; a = "c"; b = "c";',
    "rule-handle": 'grammar g; @left <e = e e>; @left "|"; start = e; e = e e | e "|" e | "a";',
    "unary-binary": 'grammar g; @left "*"; @left "-"; start = e; e = e "-" e | e "*" e | "-" e | "n";',
    "unary-rule-handle": 'grammar g; @left "*"; @right <e = "-" e>; start = e; e = e "-" e | e "*" e | "-" e | "n";',
    "unary-rule-handle-resolved": 'grammar g; @right <e = "-" e>; @left "*"; @left "-"; start = e; e = e "-" e | e "*" e | "-" e | "n";',
    "rule-handle-then-terminals": 'grammar cat; @left "*"; @left <e = e e> "x" "("; start = e; e = e e | e "*" e | "x" | "(" e ")";',
    "rule-handle-between-terminals": 'grammar cat; @left "*"; @left "x" <e = e e> "("; start = e; e = e e | e "*" e | "x" | "(" e ")";',
    "two-rule-handles-then-terminal": 'grammar g; @left <e = e e> <e = e o e> "x"; @left "(" "+" "-"; start = e; e = e e | e o e | "x" | "(" e ")"; o = "+" | "-";',
    "superset-target-all-states-kept": 'grammar g; @right "x" "y"; start = "y" "x" | "x" b "y"; a = "x" |  | start; b = start start "y" | "x" "y"; c = "y" a "y" | b c c b;',
    "none-level-between-left-levels": 'grammar g; @left "*"; @none "!"; @left "&"; start = e; e = e "*" e | e "&" e | "!" e | "n";',
    "none-level-first": 'grammar g; @none "<"; @left "+"; @left "|"; start = e; e = e "+" e | e "|" e | e "<" e | "n";',
    "none-level-in-the-middle": 'grammar g; @left "+"; @none "<"; @left "|"; start = e; e = e "+" e | e "|" e | e "<" e | "n";',
    "rule-handle-after-its-rule": 'grammar demo; start = e; e = e e | "a"; @left <e = e e> "a";',
    "directives-after-the-rules": 'grammar g; start = e; e = e "+" e | e "*" e | "-" e | "n"; @right <e = "-" e>; @left "*"; @left "+";',
    "lalr-not-slr-with-idle-directives": 'grammar demo; start = x "a" | "b" x "c" | "d" "c" | "b" "d" "a"; x = "d"; @left "d"; @left "a" "c";',
    "binary-rule-handle": 'grammar g; @left <e = e "+" e>; start = e; e = e "+" e | "n";',
}


def directives_as_written(text):
    """The precedence levels the directives of a (generated, operator-free) specification text denote:
    [(assoc, terminals, productions[(head, body)])] in source order."""
    import re
    levels = []
    for m in re.finditer(r'@(left|right|none)((?:\s+(?:"(?:[^"\\\\]|\\\\.)*"|[A-Z][A-Z0-9_]*|<[^>]*>))+)', text):
        assoc = {"left": "LEFT", "right": "RIGHT", "none": "NONE"}[m.group(1)]
        terms, prods = [], []
        for h in re.finditer(r'"((?:[^"\\\\]|\\\\.)*)"|([A-Z][A-Z0-9_]*)|<\s*([a-z][a-z0-9_]*)\s*=([^>]*)>', m.group(2)):
            if h.group(1) is not None:
                terms.append(h.group(1))
            elif h.group(2) is not None:
                terms.append(h.group(2))
            else:
                # one production handle per alternative of the rule handle (top-level `|`; no brackets)
                alts, body = [], []
                for b in re.finditer(r'"((?:[^"\\\\]|\\\\.)*)"|([A-Z][A-Z0-9_]*)|([a-z][a-z0-9_]*)|(\S)', h.group(4)):
                    if b.group(1) is not None:
                        body.append(["t", b.group(1)])
                    elif b.group(2) is not None:
                        body.append(["t", b.group(2)])
                    elif b.group(3) is not None:
                        body.append(["n", b.group(3)])
                    elif b.group(4) == "|":
                        alts.append(body)
                        body = []
                    else:
                        return None          # extended operators inside a rule handle: not read here (C12 covers them)
                alts.append(body)
                for a_ in alts:
                    prods.append({"head": h.group(3), "body": a_})
        levels.append((assoc, sorted(set(terms)), sorted(json.dumps(p, sort_keys=True) for p in prods)))
    return levels


def gen_grammar(rng):
    nts = ["start", "a", "b", "c", "d", "e"][: rng.randint(1, 5)]
    ts = ['"x"', '"y"', '"z"', '"+"', '"("', '")"'][: rng.randint(2, 6)]
    rules = []
    handles = []
    for n in nts:
        alts = []
        for _ in range(rng.randint(1, 3)):
            k = rng.randint(0, 4)
            alts.append(" ".join(rng.choice(nts + ts + ts) for _ in range(k)))
        rules.append("%s = %s;" % (n, " | ".join(alts)))
        handles += ["<%s = %s>" % (n, a_) for a_ in dict.fromkeys(alts)]
    directives = []
    if rng.random() < 0.5:
        pool = list(ts)
        if rng.random() < 0.5:
            # rule handles too, anywhere on a line: before, between and after terminals
            pool += rng.sample(handles, rng.randint(1, min(3, len(handles))))
        rng.shuffle(pool)
        for _ in range(rng.randint(1, 3)):
            if not pool:
                break
            k = rng.randint(1, min(3 if len(pool) > len(ts) else 2, len(pool)))
            directives.append("%s %s;" % (rng.choice(["@left", "@right", "@none"]), " ".join(pool.pop() for _ in range(k))))
    if rng.random() < 0.4:
        # directives may stand anywhere among the declarations: after the rules they rank, or between them
        k = rng.randint(1, len(rules))
        return "grammar g; " + " ".join(rules[:k]) + " " + " ".join(directives) + " " + " ".join(rules[k:])
    return "grammar g; " + " ".join(directives) + " " + " ".join(rules)


def gen_operator_grammar(rng):
    """E -> E op E | ( E ) | atom with a random precedence table; returns (spec text, levels [(assoc, [ops])])."""
    ops = ["+", "-", "*", "/", "^", "<", "&", "%"][: rng.randint(1, 6)]
    rng.shuffle(ops)
    levels = []
    pool = list(ops)
    while pool:
        k = rng.randint(1, min(2, len(pool)))
        levels.append((rng.choice(["@left", "@right"]), [pool.pop() for _ in range(k)]))
    alts = " | ".join('e "%s" e' % o for o in ops)
    if rng.random() < 0.35:
        # a prefix operator on a non-associative level somewhere among the others (its place in the order decides how `! a + b` is read)
        levels = list(levels)
        levels.insert(rng.randint(0, len(levels)), ("@none", ["!"]))
        lines = ["%s %s;" % (a, " ".join('"%s"' % o for o in os_)) for a, os_ in levels]
        return 'grammar g; %s start = e; e = %s | "!" e | "(" e ")" | "n";' % (" ".join(lines), alts), levels
    directives = " ".join("%s %s;" % (a, " ".join('"%s"' % o for o in os_)) for a, os_ in levels)
    return 'grammar g; %s start = e; e = %s | "(" e ")" | "n";' % (directives, alts), levels


def dictated_expr_tree(tokens, levels):
    """Precedence climbing: earlier level binds tighter; returns nested tuples ('bin', op, l, r) | ('par', x) | 'n'."""
    prec = {}
    for i, (assoc, ops) in enumerate(levels):
        for o in ops:
            prec[o] = (len(levels) - i, assoc)
    pos = [0]

    def atom():
        t = tokens[pos[0]]
        pos[0] += 1
        if t == "(":
            x = expr(0)
            pos[0] += 1
            return ("par", x)
        if t == "!":
            # the operand takes the operators that bind tighter than the prefix operator (reduce `! e` against a looser one)
            return ("pre", "!", expr(prec["!"][0] + 1))
        return "n"

    def expr(minp):
        left = atom()
        while pos[0] < len(tokens) and tokens[pos[0]] in prec and tokens[pos[0]] != "!" and prec[tokens[pos[0]]][0] >= minp:
            op = tokens[pos[0]]
            p, assoc = prec[op]
            pos[0] += 1
            right = expr(p + 1 if assoc == "@left" else p)
            left = ("bin", op, left, right)
        return left
    return expr(0)


def gen_expr(rng, ops, depth):
    if depth <= 0 or rng.random() < 0.3:
        return ["n"]
    k = rng.random()
    if k < 0.2:
        return ["("] + gen_expr(rng, ops, depth - 1) + [")"]
    if "!" in ops and k < 0.45:
        return ["!"] + gen_expr(rng, ops, depth - 1)
    return gen_expr(rng, ops, depth - 1) + [rng.choice([o for o in ops if o != "!"])] + gen_expr(rng, ops, depth - 1)


def table_of_dump(sp, tb):
    """Index form (lrfam.Table) of a dumped spec + table; reductions are matched to production indices."""
    terms = tb["terminals"]
    nts = [n for n in tb["nonterminals"] if n in set(sp["nonterminals"])]
    prods = sp["productions"]
    keyed = {json.dumps([p["head"], p["body"]]): i for i, p in enumerate(prods)}
    action = []
    for s, a, kind, param in tb["action"]:
        if kind == "REDUCE":
            k = json.dumps([param["head"], param["body"]])
            if k not in keyed:
                continue   # reduction by the augmented production never appears; unknown productions are reported by the caller
            param = keyed[k]
        action.append([s, a, kind, param])
    goto = [g for g in tb["goto"] if g[1] in set(nts)]
    T = L.Table(terms, nts, prods, sp["start"], action, goto)
    conflicts = []
    for s, a, cands in tb["conflicts"]:
        reds = sorted(keyed.get(json.dumps([c[1]["head"], c[1]["body"]]), 999999) for c in cands if c[0] == "REDUCE")
        conflicts.append((T.tidx[a], reds, any(c[0] == "SHIFT" for c in cands)))
    return T, conflicts


INST_V = """(* GENERATED: certified instances for C06 — tables dumped from Spec.LALRParsingTable for generated grammars *)
From Coq Require Import String List Bool Arith NArith.
From Verif Require Import Cfg.LR Cfg.LRSafe Cfg.Lalr Cfg.LRComplete Cfg.LRCanon Cfg.LRExact Reg.MaxMunch.
Import ListNotations.
Local Open Scope N_scope.
Fixpoint nl_eqb (a b : list N) : bool :=
  match a, b with [], [] => true | x :: a', y :: b' => (x =? y) && nl_eqb a' b' | _, _ => false end.
(* a conflict signature: terminal, sorted reduce production indices, whether a shift is among the candidates *)
Definition sig := (N * list N * bool)%%type.
Definition sig_eqb (x y : sig) : bool :=
  (fst (fst x) =? fst (fst y)) && nl_eqb (snd (fst x)) (snd (fst y)) && Bool.eqb (snd x) (snd y).
Definition sig_of (e : N * N * list act) : sig :=
  let '(s, a, l) := e in
  (a, fold_left (fun acc x => match x with Reduce p => ins p acc | _ => acc end) l [],
   existsb (fun x => match x with Shift _ => true | _ => false end) l).
Fixpoint remove1 (x : sig) (l : list sig) : option (list sig) :=
  match l with
  | [] => None
  | y :: t => if sig_eqb x y then Some t else match remove1 x t with Some t' => Some (y :: t') | None => None end
  end.
Fixpoint multiset_eqb (a b : list sig) : bool :=
  match a with
  | [] => match b with [] => true | _ => false end
  | x :: a' => match remove1 x b with Some b' => multiset_eqb a' b' | None => false end
  end.
Record inst := {
  i_G : grammar; i_T : table; i_eof : N; i_err : N; i_start : N; i_nnt : N;
  i_prec : list (N * list N * list N); i_past : N -> list symbol;
  i_rejected : bool; i_conflicts : list sig;
  i_rules : option (list crule) }.       (* the directives read as a classification of parse trees; None: not attempted *)
(* what is decided per instance:
   - the implementation rejects iff the reference construction leaves an entry unresolved, with the same conflicts;
   - otherwise its table is the reference LALR(1) table entry for entry and passes the safety check *)
(* The states the driver can be in: those reached from state 0 through the table's own SHIFT and GOTO entries.  When a directive turns
   the only SHIFT into a state into a REDUCE, that state stays in both tables with its entries but can no longer be entered; the entries
   of such states are dropped on both sides before the comparison and the safety check (the driver never consults them). *)
Definition succs (t : table) (s : N) : list N :=
  fold_left (fun acc e => match snd e with Shift n => if fst (fst e) =? s then ins n acc else acc | _ => acc end) (t_action t)
    (fold_left (fun acc e => if fst (fst e) =? s then ins (snd e) acc else acc) (t_goto t) []).
Fixpoint reach (fuel : nat) (t : table) (seen todo : list N) : list N :=
  match fuel with
  | O => seen
  | S f =>
    match todo with
    | [] => seen
    | s :: rest =>
      let new := filter (fun n => negb (memN n seen)) (succs t s) in
      reach f t (union seen new) (rest ++ new)
    end
  end.
Definition prune (t : table) : table :=
  let r := reach 4000 t [0] [0] in
  {| t_action := filter (fun e => memN (fst (fst e)) r) (t_action t);
     t_goto := filter (fun e => memN (fst (fst e)) r) (t_goto t) |}.
Definition inst_ok (i : inst) : bool :=
  let '(ref, confl) := lalr (i_G i) (i_start i) (i_eof i) (i_nnt i) (i_prec i) in
  if i_rejected i then
    negb (match confl with [] => true | _ => false end) && multiset_eqb (map sig_of confl) (i_conflicts i)
  else
    (match confl with [] => true | _ => false end)
    && table_iso (prune ref) (prune (i_T i)) (i_eof i) (i_nnt i)
    && safe_check (i_G i) (prune (i_T i)) (i_eof i) (i_err i) (i_start i) (i_past i).
%s
Definition insts : list inst := [%s].
Definition M := Eval vm_compute in mismatches inst_ok 0 insts.
Print M.
(* instances for which the reference construction leaves a conflict unresolved (the table must be refused) *)
Definition R := Eval vm_compute in mismatches (fun i => match snd (lalr (i_G i) (i_start i) (i_eof i) (i_nnt i) (i_prec i)) with [] => true | _ => false end) 0 insts.
Print R.
(* exactness (Cfg/LRExact.v): the table accepts exactly the token sequences with a canonical parse tree, builds it, and it is unique *)
Definition exact_ok (i : inst) : bool :=
  match i_rules i with
  | None => true
  | Some r => exact_check (i_G i) (prune (i_T i)) (i_eof i) (i_err i) (i_start i) (i_past i) r 60
  end.
Definition X := Eval vm_compute in mismatches exact_ok 0 insts.
Print X.
"""


def inst_defs(k, T, prec_rows, rejected, conflicts, rules=None):
    name = "g%d" % k
    body = L.table_v(T, name, None)
    # strip the header lines of table_v (imports) — keep only definitions
    defs = "\n".join(l for l in body.split("\n")
                     if (l.startswith("Definition") and "_terminals" not in l and "_nonterminals" not in l)
                     or l.startswith("  ") or l.startswith("]") or l.startswith("|}"))
    prec = "[%s]" % "; ".join("(%d, %s, %s)" % (a, C.coq_nat_list(ts), C.coq_nat_list(ps)) for a, ts, ps in prec_rows)
    sigs = "[%s]" % "; ".join("(%d, %s, %s)" % (a, C.coq_nat_list(r), "true" if sh else "false") for a, r, sh in conflicts)
    rec = ("{| i_G := %s_grammar; i_T := %s_table; i_eof := %s_eof; i_err := %s_err_state; i_start := %s_start; i_nnt := %s_nnt;\n"
           "   i_prec := %s; i_past := %s_past; i_rejected := %s; i_conflicts := %s;\n   i_rules := %s |}"
           % (name, name, name, name, name, name, prec, name, "true" if rejected else "false", sigs,
              "None" if rules is None else ("Some (trivial_rules %s_grammar)" % name if rules == "trivial" else
                                            "Some [%s]" % "; ".join("mkCR %d %s %d" % (p_, C.coq_nat_list(ks), c_) for p_, ks, c_ in rules))))
    return defs, rec


def classification_of(T, prec_rows):
    """The directives read as a classification of parse trees (Cfg/LRComplete.v): 'trivial' without directives; otherwise
    class = production + 1 for the non-terminals the directives speak about, and a child production q is allowed
      - as the LAST symbol of p, when q = B b ...: iff shifting b beats reducing p (b earlier than p's handle, or same level and @right);
      - as the FIRST symbol of p = B a ..., when q ends in a non-terminal: iff reducing q beats shifting a (q's handle earlier, or same level and @left).
    Only a reading of the directives: the kernel decides whether the table parses exactly these trees; None when too large."""
    if not prec_rows:
        return "trivial"
    def handle(q):
        for k, x in T.prods[q][1]:
            if k == "t":
                return ("t", x)
        return ("p", q)
    def level(h):
        for i, (assoc, ts, ps) in enumerate(prec_rows):
            if (h[0] == "t" and h[1] in ts) or (h[0] == "p" and h[1] in ps):
                return (i, assoc)
        return None
    def shift_beats_reduce(b, p):          # Shift b against Reduce p
        lb, lp = level(("t", b)), level(handle(p))
        if lb is None or lp is None:
            return None
        if lb[0] != lp[0]:
            return lb[0] < lp[0]
        return {0: False, 1: True}.get(lb[1])
    by_head = {}
    for q, (h, b) in enumerate(T.prods):
        by_head.setdefault(h, []).append(q)
    forbidden = set()                      # (p, position, q)
    for p_, (hp, bp) in enumerate(T.prods):
        if not bp:
            continue
        if bp[-1][0] == "n" and len(bp) >= 2:
            for q in by_head.get(bp[-1][1], []):
                bq = T.prods[q][1]
                if len(bq) >= 2 and bq[0][0] == "n" and bq[1][0] == "t":
                    v = shift_beats_reduce(bq[1][1], p_)
                    if v is False:
                        forbidden.add((p_, len(bp) - 1, q))
        if bp[0][0] == "n" and len(bp) >= 2 and bp[1][0] == "t":
            for q in by_head.get(bp[0][1], []):
                bq = T.prods[q][1]
                if len(bq) >= 2 and bq[-1][0] == "n":
                    v = shift_beats_reduce(bp[1][1], q)
                    if v is True:
                        forbidden.add((p_, 0, q))
    if not forbidden:
        return None                        # directives are present but this reading of them forbids nothing: not attempted
    classified = {T.prods[q][0] for (_, _, q) in forbidden}
    cls = lambda q: q + 1 if T.prods[q][0] in classified else 0
    rules = []
    for p_, (hp, bp) in enumerate(T.prods):
        choices = []
        for i, (k, x) in enumerate(bp):
            if k == "t" or x not in classified:
                choices.append([0])
            else:
                choices.append([q + 1 for q in by_head.get(x, []) if (p_, i, q) not in forbidden])
        n = 1
        for c in choices:
            n *= len(c)
        if n > 400:
            return None
        import itertools
        for ks in itertools.product(*choices):
            rules.append((p_, list(ks), cls(p_)))
    return rules if len(rules) <= 1500 else None


def prec_rows_of(sp, T):
    rows = []
    keyed = {json.dumps([p["head"], p["body"]]): i for i, p in enumerate(sp["productions"])}
    for lv in sp["precedences"]:
        assoc = {"LEFT": 0, "RIGHT": 1, "NONE": 2}[lv["assoc"]]
        ts = [T.tidx[t] for t in lv["terms"] if t in T.tidx]
        ps = [keyed.get(json.dumps([p["head"], p["body"]]), 999999) for p in lv["prods"]]
        rows.append((assoc, ts, ps))
    return rows


def tree_of_trace(T, toks, trace):
    stack = []
    for e in trace:
        if e[0] == "tok":
            stack.append(("leaf", toks[e[1]], e[1]))
        else:
            head, body = T.prods[e[1]]
            k = len(body)
            kids = stack[len(stack) - k:] if k else []
            if k:
                del stack[len(stack) - k:]
            stack.append(("node", e[1], kids))
    return stack


def shape(T, t):
    """Expression shape of a parse tree of the operator family."""
    if t[0] == "leaf":
        return T.terms[t[1]]
    kids = [shape(T, c) for c in t[2]]
    if len(kids) == 1:
        return kids[0] if kids[0] != "n" else "n"
    if len(kids) == 3 and kids[0] == "(":
        return ("par", kids[1])
    if len(kids) == 3:
        return ("bin", kids[1], kids[0], kids[2])
    if len(kids) == 2 and kids[0] == "!":
        return ("pre", "!", kids[1])
    return ("?", kids)


def unproductive_nts(sp):
    """The non-terminals of a dumped specification that derive no terminal string."""
    good = set()
    changed = True
    while changed:
        changed = False
        for p in sp["productions"]:
            if p["head"] not in good and all(k == "t" or x in good for k, x in p["body"]):
                good.add(p["head"])
                changed = True
    return set(sp["nonterminals"]) - good


def lr0_state_count(T):
    """Number of states of the LR(0) automaton of the (augmented) grammar — the number of LALR(1) states."""
    prods = [(len(T.nts), [("n", T.start)])] + list(T.prods)     # production 0 = S' -> start

    def closure(kernel):
        items = set(kernel)
        work = list(kernel)
        while work:
            p, d = work.pop()
            body = prods[p][1]
            if d < len(body) and body[d][0] == "n":
                for q, (h, b) in enumerate(prods):
                    if h == body[d][1] and (q, 0) not in items:
                        items.add((q, 0))
                        work.append((q, 0))
        return items
    start = frozenset([(0, 0)])
    seen = {start}
    work = [start]
    while work:
        k = work.pop()
        cl = closure(k)
        by = {}
        for p, d in cl:
            body = prods[p][1]
            if d < len(body):
                by.setdefault(body[d], set()).add((p, d + 1))
        for X, nk in by.items():
            nk = frozenset(nk)
            if nk not in seen:
                seen.add(nk)
                work.append(nk)
    return len(seen)


def superset_merged(T):
    """The signature of known finding D25: following the table's own transitions from state 0 and computing, beside each
    state, the LR(0) kernel the construction prescribes for it, some state is entered with two different kernels one of
    which strictly contains the other (a GOTO / SHIFT target was replaced by a state whose item set is a superset)."""
    prods = [(len(T.nts), [("n", T.start)])] + list(T.prods)     # production 0 = S' -> start

    def closure(kernel):
        items = set(kernel)
        work = list(kernel)
        while work:
            p, d = work.pop()
            body = prods[p][1]
            if d < len(body) and body[d][0] == "n":
                for q, (h, b) in enumerate(prods):
                    if h == body[d][1] and (q, 0) not in items:
                        items.add((q, 0))
                        work.append((q, 0))
        return items
    trans = {}
    for s_, X, n in T.transitions():
        trans.setdefault(s_, []).append((X, n))
    start = (0, frozenset([(0, 0)]))
    seen = {start}
    work = [start]
    kernels = {0: {start[1]}}
    while work and len(seen) < 20000:
        st, k = work.pop()
        cl = closure(k)
        by = {}
        for p, d in cl:
            body = prods[p][1]
            if d < len(body):
                by.setdefault(tuple(body[d]), set()).add((p, d + 1))
        for X, n in trans.get(st, []):
            nk = frozenset(by.get(tuple(X), ()))
            if not nk:
                continue
            kernels.setdefault(n, set()).add(nk)
            if (n, nk) not in seen:
                seen.add((n, nk))
                work.append((n, nk))
    for n, ks in kernels.items():
        ks = list(ks)
        for a in ks:
            for b in ks:
                if a != b and a < b:
                    return True
    # The same replacement when the precedence directives have resolved away the only transition that carried the larger
    # kernel (`s = s "y" s | s "y" s "y" | ...; @left "y" <s = s "y" s>`: the shift on "y" out of {s -> s y s., s -> s y s.y, ...} is
    # resolved to a reduction, so the superset state is entered with the smaller kernel only): the state then REDUCES by a
    # production that is complete in no item of its kernel's closure but is complete in a kernel K of the grammar's LR(0)
    # collection that strictly contains the kernel it is entered with - it behaves as the superset state K (and the
    # state it replaced is no longer reachable).
    collection = lr0_kernels(prods, closure)
    if reachable_states(T) >= len(collection):
        return False                      # the replaced state is left behind unreachable: fewer states are in use than LR(0) kernels exist
    reduces = {}
    for (st, a), (kind, q) in T.action.items():
        if kind == "REDUCE":
            reduces.setdefault(st, set()).add((q + 1, len(prods[q + 1][1])))
    for n, ks in kernels.items():
        rs = reduces.get(n, set())
        for k in ks:
            extra = rs - closure(k)
            if extra and any(k < K and rs <= closure(K) for K in collection):
                return True
    return False


def lr0_kernels(prods, closure):
    """The kernels of the LR(0) collection of the augmented grammar."""
    start = frozenset([(0, 0)])
    seen = {start}
    work = [start]
    while work:
        k = work.pop()
        by = {}
        for p, d in closure(k):
            body = prods[p][1]
            if d < len(body):
                by.setdefault(tuple(body[d]), set()).add((p, d + 1))
        for nk in by.values():
            nk = frozenset(nk)
            if nk not in seen:
                seen.add(nk)
                work.append(nk)
    return seen


def reachable_states(T):
    seen = {0}
    work = [0]
    trans = {}
    for s, X, n in T.transitions():
        trans.setdefault(s, []).append(n)
    while work:
        s = work.pop()
        for n in trans.get(s, []):
            if n not in seen:
                seen.add(n)
                work.append(n)
    return len(seen)


def language_difference(T, sp, maxlen=9, budget=4000):
    """A terminal string on which the dumped table (driver mirror) and the grammar (exact Earley) disagree, if any."""
    import itertools
    from . import docgrammar as D
    g = D.DocGrammar.__new__(D.DocGrammar)
    g.prods = [(p["head"], [("t", x) if k == "t" else x for k, x in p["body"]]) for p in sp["productions"]]
    g.start = sp["start"]
    g.by_head = {}
    for h, b in g.prods:
        g.by_head.setdefault(h, []).append(b)
    n = 0
    for ln in range(0, maxlen + 1):
        for w in itertools.product(T.terms, repeat=ln):
            n += 1
            if n > budget:
                return None
            tr, oc = T.run([T.tidx[x] for x in w])
            acc, _ = g.earley(list(w))
            if (oc == "accept") != acc:
                return {"sentence": list(w), "table_accepts": oc == "accept", "grammar_generates": acc}
    return None


def check(tier):
    rep = C.Report(PROP, tier, "translation_validation")
    rng = C.rng_for(PROP)
    ok, log = C.coq_make(["theories/Props/C06.vo"])
    for t in ["resolve_prefers_earlier_level", "resolve_left_reduces", "resolve_right_shifts", "resolve_none_is_unresolved",
              "resolve_never_invents", "certified_table_is_sound", "certified_table_is_exact", "without_directives_every_tree_is_canonical"]:
        rep.obligation("Props/C06.v: " + t, ok)
    rep.cov["print_assumptions"] = "Closed under the global context x%d" % log.count("Closed under the global context") if ok else "n/a"

    specs = [(k, v, None) for k, v in TEXTBOOK.items()]
    for i in range(25 if tier == "quick" else 600):
        specs.append(("random%d" % i, gen_grammar(rng), None))
    for i in range(15 if tier == "quick" else 300):
        text, levels = gen_operator_grammar(rng)
        specs.append(("operator%d" % i, text, levels))
    res = C.hook_map([{"op": "lalr", "text": t + "\n"} for _, t, _ in specs], timeout_each=20)
    insts, meta, dist = [], [], {"accepted": 0, "rejected": 0, "spec_error": 0, "slow": 0, "multiway_unspecified": 0}
    problems = []
    for (name, text, levels), r in zip(specs, res):
        if r.get("outcome") == "slow":
            dist["slow"] += 1
            continue
        if r.get("outcome") != "ok" or r.get("table") is None:
            dist["spec_error"] += 1
            continue
        sp, tb = r["spec"], r["table"]
        written = directives_as_written(text)
        if written is not None:
            recorded = [(lv["assoc"], sorted(set(lv["terms"])), sorted(json.dumps(p, sort_keys=True) for p in lv["prods"]))
                        for lv in sp["precedences"]]
            if recorded != written:
                problems.append((name, text, "the precedence levels handed to the table builder are not the directives as written: "
                                             "recorded %r, written %r" % (recorded, written)))
        rejected = "table_error" in r
        if rejected != bool(tb["conflicts"]):
            problems.append((name, text, "verdict and conflict list disagree: error=%s conflicts=%d" % (rejected, len(tb["conflicts"]))))
        if rejected and not r.get("table_nil"):
            problems.append((name, text, "a table was returned together with a conflict error"))
        try:
            T, conflicts = table_of_dump(sp, tb)
        except (KeyError, ValueError) as e:
            problems.append((name, text, "table dump cannot be indexed: %s" % e))
            continue
        if any(len(c[1]) + (1 if c[2] else 0) > 2 for c in conflicts):
            dist["multiway_unspecified"] += 1
            continue
        dist["rejected" if rejected else "accepted"] += 1
        pr_rows = prec_rows_of(sp, T)
        insts.append((T, pr_rows, rejected, conflicts, None if rejected else classification_of(T, pr_rows)))
        meta.append((name, text, levels, T, rejected, sp, tb["states"]))
    # instance files
    paths, offs = [], []
    shard = 12
    for o in range(0, len(insts), shard):
        defs, recs = [], []
        for k, (T, pr, rej, cf, rl) in enumerate(insts[o:o + shard]):
            d, rcd = inst_defs(k, T, pr, rej, cf, rl)
            defs.append(d)
            recs.append(rcd)
        path = os.path.join(C.GEN, "inst_C06_%d.v" % (o // shard))
        with open(path, "w") as f:
            f.write(INST_V % ("\n".join(defs), ";\n".join(recs)))
        paths.append(path)
        offs.append(o)
    bad, cerr, ref_conflict, inexact = [], None, set(), []
    for (okc, out), o in zip(C.coqc_many(paths, timeout=600), offs):
        m = C.parse_mismatches(out) if okc else None
        if m is None:
            cerr = out
            break
        bad.extend(o + x for x in m)
        ref_conflict.update(o + x for x in (C.parse_mismatches(out, "R") or []))
        inexact.extend(o + x for x in (C.parse_mismatches(out, "X") or []))
    # Grammars with a non-terminal that derives no terminal string are outside the reference's domain: there the two usual definitions
    # of "the LALR(1) table" part.  Merging LR(1) item sets (the dependency) gives a closure item [B -> .g, t] only for t in FIRST(beta a), which
    # is empty when beta starts with such a non-terminal, so the state has no SHIFT for g's first symbol; LR(0) transitions plus look-ahead sets
    # (Cfg/Lalr.v) keep that SHIFT.  The entries differ only where no sentence can pass, and the property speaks of sentences: an accepted
    # table of such a grammar is compared on all strings up to the bound instead, and reported only with a sentence.
    # (a rejected one: the reference must report a conflict too - which entries conflict may differ for the same reason)
    outside = [i for i in bad if unproductive_nts(meta[i][5])
               and ((i in ref_conflict) if meta[i][4] else language_difference(meta[i][3], meta[i][5]) is None)]
    bad = [i for i in bad if i not in outside]
    dist["unproductive_nonterminal_compared_on_strings_only"] = len(outside)
    # precedence-dictated parses for the operator family (executed on the dumped table with the driver mirror)
    tree_bad, n_expr = [], 0
    for name, text, levels, T, rejected, _sp, _ns in meta:
        if levels is None or rejected:
            continue
        ops = [o for _, os_ in levels for o in os_]
        for _ in range(12 if tier == "quick" else 60):
            ex = gen_expr(rng, ops, rng.randint(1, 4))
            toks = [T.tidx[x] for x in ex]
            tr, oc = T.run(toks)
            n_expr += 1
            if oc != "accept":
                tree_bad.append((name, text, ex, "sentence rejected by the table: %r" % (oc,)))
                continue
            st = tree_of_trace(T, toks, tr)
            got = shape(T, st[0]) if len(st) == 1 else None
            exp = dictated_expr_tree(ex, levels)
            if got != exp:
                tree_bad.append((name, text, ex, {"built": got, "dictated": exp}))
    rep.cov["programs"] = len(insts)
    rep.cov["disagreements_checked"] = len(bad)
    rep.cov["evaluations"] = len(insts) + n_expr
    rep.cov["distinct_nontrivial"] = len({m[1] for m in meta})
    rep.cov["rule"] = ("textbook families (SLR, LALR-not-SLR, LR(1)-not-LALR, dangling else, inherently ambiguous, epsilon rules, rule handles), "
                       "random grammars and operator grammars with random precedence tables; each dumped table is compared entry for entry with "
                       "the Coq LALR(1) reference (or, when rejected, its conflicts with the reference's unresolved entries) and passes the proved "
                       "safety check; operator grammars additionally run random expressions on the table and compare with precedence climbing")
    rep.cov["input_distribution"] = dict(dist, expressions=n_expr)
    rep.cov["samples"] = [{"grammar": m[1], "rejected": m[4]} for m in meta[:4]]
    rep.cov["partial"] = ["known finding D25: tables with fewer states than the LALR(1) automaton (superset merging in the dependency) are not "
                          "certified; they are reported as KNOWN-FINDING with a wrongly accepted sentence when one is found",
                          "accepted grammars with a non-terminal deriving no terminal string whose table is not the reference's (LR(1)-merging and "
                          "LR(0)-plus-look-aheads differ there in entries no sentence reaches) are compared with the grammar on all strings up to length 9 only"]
    if cerr is not None:
        rep.obligation("instance files compile", False)
        rep.violation("instances", {"theorem": "gen/inst_C06_*.v does not compile", "log": cerr[-3000:]}, no_input=True)
    else:
        unexplained = [i for i in bad if not (superset_merged(meta[i][3]) and rep.match_known({"fewer-states-than-lalr"}))]
        rep.obligation("certified instances: %d of %d tables == Coq LALR(1) reference / conflicts, and safe (the rest: known finding D25)"
                       % (len(insts) - len(bad), len(insts)), not unexplained)
    # exactness certificates (Cfg/LRExact.v), for the tables that are the reference tables
    if cerr is None:
        # (the certificate needs a completion for every viable prefix: none exists below a non-terminal that derives nothing)
        reduced = [not unproductive_nts(m[5]) for m in meta]
        att_triv = [i for i, x in enumerate(insts) if x[4] == "trivial" and i not in bad and i not in outside and reduced[i]]
        att_dir = [i for i, x in enumerate(insts) if isinstance(x[4], list) and i not in bad and i not in outside and reduced[i]]
        dist["unproductive_nonterminal_no_exactness_certificate"] = sum(1 for i, x in enumerate(insts) if not reduced[i] and x[4] is not None)
        fail_triv = [i for i in att_triv if i in inexact]
        fail_dir = [i for i in att_dir if i in inexact]
        # (a prefix operator on a low level makes a deep priority conflict: the shallow classification cannot certify such tables;
        #  they are compared with the reference construction and run on expressions, like the other directive grammars)
        binary_only = lambda lv: lv is not None and all("!" not in os_ for _, os_ in lv)
        fail_op = [i for i in fail_dir if binary_only(meta[i][2])]
        rep.cov["exactness_certificates"] = {
            "without_directives": {"attempted": len(att_triv), "certified": len(att_triv) - len(fail_triv)},
            "with_directives": {"attempted": len(att_dir), "certified": len(att_dir) - len(fail_dir),
                                "not_attempted": sum(1 for x in insts if x[4] is None and not x[2]),
                                "uncertified": [meta[i][1] for i in fail_dir[:5]]}}
        rep.obligation("exactness: %d of %d accepted grammars whose directives forbid nothing: the table accepts EXACTLY the grammar's sentences "
                       "(any length) and no sentence has two parse trees (exact_check, kernel-evaluated per grammar)"
                       % (len(att_triv) - len(fail_triv), len(att_triv)), not fail_triv)
        n_op = sum(1 for i in att_dir if binary_only(meta[i][2]))
        rep.obligation("exactness with directives: %d of %d operator grammars: the table accepts exactly the trees the precedence table allows, "
                       "builds them, and they are unique (other directive grammars: %d of %d certified, the rest only compared with the reference)"
                       % (n_op - len(fail_op), n_op, len(att_dir) - n_op - (len(fail_dir) - len(fail_op)), len(att_dir) - n_op), not fail_op)
        for i in (fail_triv + fail_op)[:3]:
            name, text, levels, T, rejected, sp, nstates = meta[i]
            diff = language_difference(T, sp)
            payload = {"grammar": text, "theorem": "exact_check (Cfg/LRExact.v) for this grammar's table",
                       "note": "the table is the reference LALR(1) table but is not certified to accept exactly the canonical trees"}
            if diff:
                payload.update(diff)
            rep.failure("exactness", {"exactness"}, payload, no_input=(diff is None))
    rep.obligation("precedence-dictated parses on %d expressions" % n_expr, not tree_bad)
    rep.obligation("verdict consistency (error <=> conflicts; no table with an error)", not problems)
    reported = 0
    for i in bad:
        name, text, levels, T, rejected, sp, nstates = meta[i]
        tags = {"table"}
        ref_states = lr0_state_count(T)
        nstates = reachable_states(T)
        if superset_merged(T):
            tags = {"fewer-states-than-lalr"}        # the dependency replaced a GOTO / SHIFT target by a superset state (D25)
        diff = None if rejected else language_difference(T, sp)
        if rep.match_known(tags) is None:
            reported += 1
            if reported > 3:
                continue
        payload = {"grammar": text, "implementation_rejected": rejected, "table_states": nstates, "lalr_states": ref_states,
                   "note": "the dumped table (or its conflicts) differs from the LALR(1) reference construction"}
        if diff:
            payload.update(diff)
            rep.cov.setdefault("known_finding_D25_examples", []).append({"grammar": text, **diff})
        verdict_differs = (i in ref_conflict) != bool(rejected)
        if verdict_differs:
            # the specification itself is the failing input: conflict reported <=> the directives leave one unresolved
            payload["input_text"] = text
            payload["note"] = ("the directives leave a conflict unresolved (reference LALR(1) construction) but LALRParsingTable returned a table"
                               if i in ref_conflict else "LALRParsingTable reports a conflict that the directives resolve (reference LALR(1) construction)")
        rep.failure("table", tags, payload, no_input=(diff is None and not verdict_differs))
    for name, text, ex, d in tree_bad[:3]:
        rep.failure("parse", {"parse"}, {"grammar": text, "sentence": ex, "detail": d})
    for name, text, why in problems[:3]:
        rep.failure("verdict", {"verdict"}, {"grammar": text, "why": why})
    if not ok and not rep.violations:
        rep.violation("proof", {"theorem": "Props/C06.v", "log": log[-2500:]}, no_input=True)
    return rep.finish()


def replay(path):
    d = json.load(open(path))
    if "grammar" not in d:
        print("replay names an obligation:", d.get("theorem"))
        return 1
    r = C.hook_batch([{"op": "lalr", "text": d["grammar"] + "\n"}])[0]
    print("verdict now:", "rejected" if "table_error" in r else "accepted", "| conflicts:", (r.get("table") or {}).get("conflicts"))
    return 1
