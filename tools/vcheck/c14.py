"""C14 — no input crashes or hangs emerge; failures are errors and clean non-zero exits."""
import json
import os
import shutil
import subprocess
import tempfile

from . import common as C
from . import c08
from . import actfam
from . import clifam
from . import specfam as S
from . import regexfam as R

PROP = "C14"
HALF = 4096

SEEDS = [
    'grammar calc;\nNUM = /[0-9]+/;\nID = $ID;\n@left "+" "-";\n@left "*" <expr = "-" expr>;\nstart = expr;\nexpr = expr "+" expr | expr "-" expr | expr "*" expr | "-" expr | "(" expr ")" | NUM | ID;\n',
    'grammar g;\nstart = {"x"} ["y"] {{"z"}} ("w" | "v") | ;\n',
    'grammar g\nA1 = "a"\nstart = A1 b\nb = {A1 | "q"} [b]\n',
    'grammar g;\nSTR = $STRING;\nCM = $COMMENT;\nWS = $WS;\n@none <start = STR>;\n@right STR;\nstart = STR | start STR;\n',
    'grammar g; // comment\n/* block */ start = "\\"" "\\\\" /x\\/y/ ;\nREX = /[^\\]a-z\\d]+|\\p{Greek}{2,3}/;\n',
]
PATTERNS = ["", "a", "[a-z]+", "[^a]", "[]", "[", "]", "(", ")", "()", "a|", "|a", "a**", "*", "+", "?", "{", "}", "a{1,2}", "a{2,1}", "a{,}", "a{150}", "a{63}", "a{64}",
            "\\", "\\x", "\\x41", "\\x{41}", "\\u0041", "\\p{Greek}", "\\p{Nope}", "[\\x80]", "[\\p{Greek}]", "[[:alpha:]]", "[[:nope:]]", "[a-]", "[-a]", "[z-a]",
            ".", "\\.", "\\d\\D\\s\\S\\w\\W", "é", "[é-ü]", "\x00", "a\x00b", "\\\x00", "(((((((((a)))))))))", "a" * 300, "(a|b)*abb", "€+", "\U0001F600", "[\U0001F600]"]


def mutate(rng, text):
    b = bytearray(text.encode("utf-8"))
    for _ in range(rng.randint(1, 4)):
        k = rng.random()
        if not b:
            b += bytes([rng.randrange(256)])
        elif k < 0.3:
            del b[rng.randrange(len(b))]
        elif k < 0.6:
            b.insert(rng.randrange(len(b) + 1), rng.choice(b' \n;="|(){}[]<>@/$\\x\x00\xff\xc3'))
        elif k < 0.8:
            b[rng.randrange(len(b))] = rng.randrange(256)
        else:
            i = rng.randrange(len(b))
            j = min(len(b), i + rng.randint(1, 8))
            b[i:i] = b[i:j]
    return bytes(b)


QUEUE64 = "index out of range [64] with length 64"


LALRNIL = "lookahead.ComputeLALR1Kernels"


def tag_of(message, default="panic"):
    """Panics inside the dependency that are recorded findings are told apart by their message / top frame:
    the 64-slot queue (D28) and the nil dereference of the LALR(1) kernel computation (D29)."""
    if QUEUE64 in (message or ""):
        return "dependency-queue-64"
    if LALRNIL in (message or "") and "nil pointer dereference" in (message or ""):
        return "dependency-lalr-nil-deref"
    if "lr.(*PrecedenceHandle).Equal" in (message or "") and "nil pointer dereference" in (message or ""):
        return "dependency-precedence-nil-deref"
    return default


def as_text(b):
    """The hook's JSON transport carries strings; arbitrary bytes travel as latin-1 escapes decoded by the op."""
    return b.decode("utf-8", "surrogateescape")


def check(tier):
    rep = C.Report(PROP, tier, "proof")
    rng = C.rng_for(PROP)
    try:
        actfam.regen()
        clifam.regen()
        tr_err = None
    except Exception as e:
        tr_err = str(e)
    rep.obligation("translator read the two evaluation callbacks with go/types (gen/ActionsGo.v)", tr_err is None)
    ok, log = C.coq_make(["theories/Props/C14.vo"])
    for t in ["spec_callback_never_panics", "spec_final_assertion_holds", "ast_callback_never_panics", "ast_final_assertion_holds"]:
        rep.obligation("Props/C14.v: %s (instantiated with the translated typing facts)" % t, ok)
    ok2, log2 = C.coq_make(["theories/Props/C16Flags.vo"])
    rep.obligation("Props/C16Flags.v: cli_never_panics, bad_flags_exit_cleanly (translated CLI parameters)", ok2)
    ok3, _ = C.coq_make(["theories/Cfg/LRSafe.vo", "theories/Cfg/LREval.vo", "theories/Reg/Peg.vo", "theories/Reg/MaxMunch.vo"])
    rep.obligation("models are total: lr_sound / evaluate_plumbing (no stack underflow), PEG combinators, lexes_functional", ok3)
    C.build_tools()

    # ---- entry points on hostile inputs (panics are recovered by the hook and reported; a dead process is a crash) ----
    inputs = []
    for s_ in SEEDS:
        b = s_.encode("utf-8")
        step = 1 if tier == "thorough" else max(1, len(b) // 40)
        for cut in range(0, len(b) + 1, step):
            inputs.append(("truncated", b[:cut]))
    for _ in range(150 if tier == "quick" else 3000):
        inputs.append(("mutated", mutate(rng, rng.choice(SEEDS))))
    for _ in range(60 if tier == "quick" else 1000):
        inputs.append(("random-bytes", bytes(rng.randrange(256) for _ in range(rng.randint(0, 60)))))
    for _ in range(40 if tier == "quick" else 600):
        inputs.append(("wellformed", S.gen_wellformed(rng).encode("utf-8")))
    inputs += [("edge", b""), ("edge", b"grammar"), ("edge", b"grammar g"), ("edge", b"grammar g;"), ("edge", b"\xef\xbb\xbfgrammar g;"), ("edge", b"\x00"),
               ("edge", b"grammar g; start = ;"), ("edge", b"grammar g; start = " + b"(" * 40 + b'"x"' + b")" * 40 + b";"),
               ("edge", b"grammar g; start = " + b'"x" ' * 120 + b";"), ("edge", b"grammar g; s = " + b"{" * 40 + b'"x"' + b"}" * 40 + b"; start = s;")]
    # specifications that reach every production of the EBNF grammar in every context (rule handles with empty and non-empty
    # bodies first / later in a directive, predefined tokens, empty rules, every bracket kind, optional semicolons)
    from . import c11 as c11mod, c12 as c12mod
    for t in c11mod.EDGE:
        inputs.append(("coverage", t.encode("utf-8")))
    for _ in range(30 if tier == "quick" else 400):
        inputs.append(("coverage", c12mod.gen_spec(rng).encode("utf-8")))
    # every way a specification can be ILL-FORMED (the diagnostics are code too): each defect alone and a few combinations
    from . import c07 as c07mod
    base_ok = 'grammar g;\nstart = ID "x";\nID = $ID;\n'
    for d in c07mod.DEFECTS:
        inputs.append(("diagnostic", c07mod.seed_defects(rng, base_ok, [d]).encode("utf-8")))
    for _ in range(10 if tier == "quick" else 200):
        inputs.append(("diagnostic", c07mod.seed_defects(rng, base_ok, rng.sample(c07mod.DEFECTS, rng.randint(2, 4))).encode("utf-8")))
    inputs.append(("diagnostic", b'grammar g; IF = "if"; start = "if" IF;'))
    inputs.append(("diagnostic", b'grammar g; @left "a"; @right "a" <s = s "a" s>; @none <s = s "a" s>; s = "a";'))
    inputs.append(("edge", b'grammar g; start = "' + b"k" * 64 + b'";'))
    inputs.append(("edge", b'grammar g; start = c c; c = c "*";'))
    inputs.append(("edge", b'grammar g\n@right <start = [start]>;\n'))
    # large specifications: many distinct terminals, non-terminals, productions and bracketed bodies (every table of the front end
    # must take them; a call that does not come back is a hang)
    for n in (60, 90, 130, 200):
        inputs.append(("size", ('grammar g; start = ' + " | ".join('"t%d"' % i for i in range(n)) + ";").encode()))
    for n in (90, 150):
        inputs.append(("size", ("grammar g; start = r0; " + " ".join('r%d = r%d "x";' % (i, i + 1) for i in range(n)) + ' r%d = "y";' % n).encode()))
    inputs.append(("size", ("grammar g; start = " + " ".join('{"a%d" b%d}' % (i, i % 7) for i in range(100)) + "; " + " ".join('b%d = "b%d";' % (i, i) for i in range(7))).encode()))
    inputs.append(("size", ("grammar g; start = " + " | ".join("TK%d" % i for i in range(95)) + "; " + " ".join('TK%d = "k%d";' % (i, i) for i in range(95))).encode()))
    texts = []
    for kind, b in inputs:
        try:
            texts.append((kind, b.decode("utf-8")))
        except UnicodeDecodeError:
            texts.append((kind, b.decode("latin-1")))     # still arbitrary code points; invalid UTF-8 goes through the CLI below
    reqs = []
    for kind, t in texts:
        for op in (("spec", "ast") if kind == "size" else ("spec", "ast", "spec_dfa")):      # (the scanner of 200 definitions is the dependency's cost)
            reqs.append(({"op": op, "text": t}, kind, t))
    res = C.hook_map([r for r, _, _ in reqs], timeout_each=20)
    bad, nil_ok, slow = [], [], []
    kinds = {}
    for (rq, kind, t), r in zip(reqs, res):
        o = (r or {}).get("outcome", "crash")
        kinds[kind + ":" + o] = kinds.get(kind + ":" + o, 0) + 1
        if o in ("panic", "crash"):
            bad.append((rq["op"], t, r))
        elif o == "slow":
            slow.append((rq["op"], t))
        elif o == "ok" and (r.get("nil_spec") or r.get("nil_tree")):
            nil_ok.append((rq["op"], t))
    seen, new_bad = set(), 0
    for op, t, r in bad:
        key = (op, (r or {}).get("panic", "crash")[:60])
        if key in seen:
            continue
        seen.add(key)
        if rep.failure("panic", {tag_of((r or {}).get("panic", ""))}, {"entry_point": op, "input_text": t, "result": r}):
            new_bad += 1
    rep.obligation("spec.Parse / ast.Parse / Spec.DFA on %d hostile texts: a result or an error, no panic (recorded findings apart)" % len(texts), not new_bad)
    rep.obligation("no entry point returns success with a nil result", not nil_ok)
    for op, t in nil_ok[:2]:
        rep.failure("nil-success", {"nil-success"}, {"entry_point": op, "input_text": t})
    rep.obligation("every call returned within 20 s", not slow)
    for op, t in slow[:2]:
        rep.failure("hang", {"hang"}, {"entry_point": op, "input_text": t[:400], "input_length": len(t)})

    # ---- patterns ----
    pats = list(PATTERNS) + list(R.EVERY_CONSTRUCT) + list(R.PROBLEM) + list(R.ALL_ESCAPES) + ["$", "^", "^$", "($)", "(^)", "a|$", "($)*", "(^a$)+", "a{0,0}", "(ab){0}x", "()*", "(|)",
                                                                                                              # bounds beyond the machine integer (they wrap around in the mappers' arithmetic)
                                                                                                              "a{9223372036854775808}", "(ab){9223372036854775808,}", "x[0-9]{18446744073709551610}y",
                                                                                                              "a{18446744073709551615,18446744073709551616}", "a{0,18446744073709551610}"] + list(R.EDGE_BLANKS) + list(R.EXTREME_GROUPS)
    pats += R.small_exhaustive() if tier != "quick" else R.small_exhaustive()[::4]
    docpats = [R.gen_tree(rng, rng.randint(1, 3)) for _ in range(150 if tier == "quick" else 3000)]
    pats += docpats + R.mutations(rng, docpats + list(R.EVERY_CONSTRUCT), 150 if tier == "quick" else 3000)
    alphabet = ["a", "b", "[", "]", "(", ")", "|", "*", "+", "?", "{", "}", ",", "0", "1", "2", "\\", "^", "$", "-", ".", "x", "p", "d", ":", "é", "\x00", "€"]
    for _ in range(300 if tier == "quick" else 6000):
        pats.append("".join(rng.choice(alphabet) for _ in range(rng.randint(0, 9))))
    pres = C.hook_map([{"op": "regex", "pattern": p_} for p_ in pats], timeout_each=90)
    pbad, pslow = [], []
    for p_, r in zip(pats, pres):
        if not r or r.get("outcome") in ("crash", "panic"):
            pbad.append((p_, "whole", r))
            continue
        if r.get("outcome") == "slow":
            pslow.append(p_)
            continue
        for route in ("nfa", "pipeline", "ast"):
            rr = r.get(route) or {}
            if rr.get("outcome") == "panic":
                pbad.append((p_, route, rr))
    seen, new_pbad = set(), 0
    for p_, route, r in sorted(pbad, key=lambda x: len(x[0])):
        key = (route, str((r or {}).get("panic", "crash"))[:50])
        if key in seen:
            continue
        seen.add(key)
        if rep.failure("pattern-panic", {tag_of(str((r or {}).get("panic", "")), "pattern-panic")}, {"pattern": p_, "route": route, "result": r}):
            new_pbad += 1
    rep.obligation("nfa.Parse / regex ast.Parse / pattern-to-DFA on %d pattern strings: a result or an error, no panic (recorded findings apart)" % len(pats), not new_pbad)
    # nested counted repetitions over large classes take minutes in the implementation (a cost that grows with the pattern, not a
    # loop): a time-out counts as a hang only for a short pattern, longer ones are recorded as undecided
    # (the size that matters is the expanded one: counted repetitions multiply the pattern)
    import re as _re
    weight = lambda p_: len(p_) + sum(int(x) for x in _re.findall(r"\d+", " ".join(_re.findall(r"\{[^}]*\}", p_))))
    phang = [p_ for p_ in pslow if weight(p_) <= 16]
    rep.cov["patterns_undecided_slow"] = len(pslow) - len(phang)
    rep.obligation("every short pattern call (length plus repetition counts at most 16) returned within 90 s", not phang)
    for p_ in phang[:2]:
        rep.failure("pattern-hang", {"pattern-hang"}, {"pattern": p_})

    # ---- the command-line tool: every failure is a message and a non-zero status, never a stack trace ----
    exe = c08.emerge_binary()
    scratch = tempfile.mkdtemp(prefix="verif-c14-")
    cli_bad, cli_runs, file_texts, cli_slow = [], 0, {}, 0
    try:
        files = {}
        sampled = inputs[:: max(1, len(inputs) // (60 if tier == "quick" else 600))] + [x for x in inputs if x[0] == "edge"]
        for i, (kind, b) in enumerate(sampled):
            p = os.path.join(scratch, "in%d.grammar" % i)
            open(p, "wb").write(b)
            files[p] = (kind, b)
            file_texts[p] = b.decode("latin-1")
        p64 = os.path.join(scratch, "long_literal.grammar")
        open(p64, "wb").write(b'grammar g; start = "' + b"k" * 64 + b'";')
        files[p64] = ("edge", b"")
        argvs = [[p] for p in files]
        os.mkdir(os.path.join(scratch, "adir"))
        argvs += [[], ["nofile"], [os.path.join(scratch, "adir")], ["-bogus"], ["-h"], ["-name"], ["-out"], ["-debug=maybe", "x"], ["--", "-x"], ["-"], ["--"],
                  ["-name", "", list(files)[0]], ["-out", "", list(files)[0]], ["-out", "/nonexistent/dir", list(files)[0]], ["-verbose", "-debug", "-help"],
                  ["-version", "-bogus"], ["-name=" + "x" * 5000, list(files)[0]], ["\x01\x02"], ["-name", "a\nb", list(files)[0]]]
        afile = os.path.join(scratch, "afile")
        open(afile, "w").write("x")
        good = os.path.join(scratch, "good.grammar")            # a specification that is accepted: the generator itself is reached
        open(good, "w").write('grammar good;\nNUM = /[0-9]+/;\nstart = NUM "+" NUM;\n')
        file_texts[good] = open(good).read()
        argvs += [["-out", os.path.join(afile, "sub"), good], ["-out", afile, good], ["-out", os.path.join(scratch, "a" * 300), good],
                  ["-out", os.path.join(scratch, "adir", "..", "adir"), good], ["-out", os.path.join(scratch, "adir") + "/", good],
                  ["-out", os.path.join(scratch, "adir"), "-name", "n" * 300, good], ["-out", os.path.join(scratch, "adir"), "-name", "x/y", good],
                  ["-out", os.path.join(scratch, "adir"), good], ["-out", os.path.join(scratch, "adir"), good],       # twice: the package directory exists the second time
                  [os.path.join(afile, "sub.grammar")], [os.path.join(scratch, "b" * 300)], ["-name", "n" * 300, good]]
        flagpool = ["-out", "-name", "-debug", "-verbose", "-help", "-version", "-x", "--", "-", "=", "-out=", "-name=_", "-debug=0", "-verbose=2", "x y", "é", ""]
        for _ in range(40 if tier == "quick" else 600):
            argvs.append([rng.choice(flagpool + list(files)[:3] + [good, good]) for _ in range(rng.randint(0, 5))])
        for av in argvs:
            out = os.path.join(scratch, "out%d" % cli_runs)
            os.mkdir(out)
            try:
                p = subprocess.run([exe] + av, cwd=out, stdout=subprocess.PIPE, stderr=subprocess.PIPE, timeout=120)
                se = p.stderr.decode("utf-8", "replace")
                so = p.stdout.decode("utf-8", "replace")
                trace = "goroutine 1 [running]" in se or "panic:" in se or "fatal error:" in se
                if trace:
                    cli_bad.append((av, "stack trace", (QUEUE64 + " ... " if QUEUE64 in se else "") + se[se.find("panic:"):][:700] + " ... " + se[-400:]))
                elif p.returncode not in (0, 1, 2):
                    cli_bad.append((av, "status %d" % p.returncode, se[-300:]))
                elif p.returncode != 0 and not (se.strip() or so.strip()):
                    cli_bad.append((av, "non-zero status without a message", ""))
            except subprocess.TimeoutExpired:
                kind, b = files.get(av[-1], ("?", b"")) if av else ("?", b"")
                # the cost of table construction grows steeply with nesting and body length: a time-out is a hang only for a
                # small input, for larger ones it is recorded as undecided
                if len(b) <= 400:
                    cli_bad.append((av, "timeout", "input of %d bytes" % len(b)))
                else:
                    cli_slow += 1
            shutil.rmtree(out, ignore_errors=True)
            cli_runs += 1
    finally:
        shutil.rmtree(scratch, ignore_errors=True)
    new_cli = 0
    for av, why, tail in cli_bad:
        if new_cli >= 3:
            break
        content = None
        if av and av[-1] in file_texts:
            content = file_texts[av[-1]]
        if rep.failure("cli", {tag_of(tail, "cli")}, {"argv": [a if len(a) < 200 else a[:200] + "..." for a in av], "why": why, "stderr": tail,
                                                      "input_text": content}):
            new_cli += 1
    rep.obligation("emerge binary on %d command lines / input files: a message and status 0, 1 or 2; no stack trace; no hang (recorded findings apart)" % cli_runs, not new_cli)

    found = bool(rep.violations)
    if not ok:
        rep.violation("proof", {"theorem": "Props/C14.v: the typing check of the evaluation callbacks no longer passes for the current source",
                                "log": log[-2500:]}, no_input=not found)
    if not ok2:
        rep.violation("proof-cli", {"theorem": "Props/C16Flags.v", "log": log2[-1500:]}, no_input=not found)
    if tr_err:
        rep.violation("translator", {"theorem": "gen/ActionsGo.v / gen/CliGo.v", "log": tr_err}, no_input=not found)

    rep.cov["cli_runs_undecided_slow"] = cli_slow
    rep.cov["evaluations"] = len(reqs) + len(pats) * 3 + cli_runs
    rep.cov["distinct_nontrivial"] = len(set(t for _, t in texts)) + len(set(pats)) + cli_runs
    rep.cov["input_distribution"] = dict(kinds, patterns=len(pats), cli_runs=cli_runs)
    rep.cov["rule"] = ("typing facts of both callbacks re-read from the source with go/types and re-proved; entry points run (recover() in the hook, process "
                       "death = crash, 20 s limit = hang) on truncations of seed specifications at byte offsets, byte-level mutations, random bytes, "
                       "well-formed generated specifications, deep nesting and long bodies; pattern routes on a fixed list of edge patterns plus random strings "
                       "over the pattern alphabet; the binary on files with those contents (invalid UTF-8 included) and on fixed and random command lines")
    rep.cov["partial"] = ["termination of the real process is runtime behaviour: searched for under time limits, not proved",
                          "memory exhaustion on hostile counted repetitions (a{999}{999}) is outside the model",
                          "panics inside the dependency reached with well-typed arguments are covered only by the runs"]
    return rep.finish()


def replay(path):
    d = json.load(open(path))
    print(json.dumps({k: d[k] for k in d if k != "log"}, indent=1)[:3000])
    return 1
