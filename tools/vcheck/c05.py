"""C05 — EBNF scanner yields exactly the documented tokens, lexemes and positions."""
import json
import os

from . import common as C
from . import docref
from .lexmodel import Dfa, product_search, max_munch


# ------------------------------------------------------------------ translation to Coq

def mode_term(mode, fixed="", cut=0):
    if mode == "fixed":
        return "(Fixed %s)" % C.coq_nat_list(C.codepoints(fixed))
    if mode == "whole":
        return "Whole"
    if mode == "strip1":
        return "Strip1"
    if mode == "trimcut":
        return "(TrimCut %d)" % cut
    raise ValueError(mode)


def edges_term(edges):
    return "[" + "; ".join("(%d,%d,%d,%d)" % tuple(e) for e in edges) + "]"


HEADER = """(* GENERATED on every run by /verif/tools/vcheck — do not edit. Source: %s *)
From Coq Require Import String List NArith.
From Verif Require Import Reg.Dfa Reg.MaxMunch.
Import ListNotations.
Local Open Scope N_scope.
Local Open Scope string_scope.
"""


def lexer_go_v(tr):
    lines = [HEADER % "/repo/internal/ebnf/lexer/lexer.go (advanceDFA, evalDFA, NextToken)"]
    lines.append("Definition go_dfa : dfa := {| d_start := 0; d_edges := %s |}.\n" % edges_term(tr["edges"]))
    lines.append("Definition go_eval (q : N) : evalres :=\n  match q with")
    for e in tr["eval"]:
        lines.append("  | %d => Tok %s %s" % (e["state"], C.coq_string(e["kind"]),
                                            mode_term(e["mode"], e.get("fixed", ""), e.get("cut", 0))))
    lines.append("  | _ => Err\n  end.\n")
    lines.append("Definition go_skip (k : string) : bool := existsb (String.eqb k) [%s].\n"
                 % "; ".join(C.coq_string(k) for k in tr["skip"]))
    lines.append("Definition go_buffer_size : N := %d.\n" % tr["buffer_size"])
    return "\n".join(lines)


def doc_dfa_v(ref):
    lines = [HEADER % "/repo/docs/6-design.md (Lexer DFA Code, executed) + docs/5-definitions.md (token table) + /verif/docref_overrides.json"]
    lines.append("Definition doc_dfa : dfa := {| d_start := %d; d_edges := %s |}.\n"
                 % (ref["start"], edges_term(docref.compress_edges(ref["trans"]))))
    lines.append("Definition doc_cls (q : N) : cls_t :=\n  match q with")
    for q in sorted(ref["labels"]):
        lab = ref["labels"][q]
        if lab[0] == "skip":
            lines.append("  | %d => CSkip" % q)
        else:
            lines.append("  | %d => CTok %s %s" % (q, C.coq_string(lab[1]), mode_term(lab[2], lab[3])))
    lines.append("  | _ => CErr\n  end.\n")
    return "\n".join(lines)


def translate():
    C.build_tools()
    p = C.run([os.path.join(C.BIN, "gotrans"), "lexer", os.path.join(C.REPO, "internal/ebnf/lexer/lexer.go")])
    if p.returncode != 0:
        raise C.BuildError("gotrans lexer: " + p.stderr.strip())
    return json.loads(p.stdout)


def go_label(tr):
    ev = {e["state"]: e for e in tr["eval"]}
    skip = set(tr["skip"])

    def lab(q):
        e = ev.get(q)
        if e is None:
            return None
        if e["kind"] in skip:
            return ["skip"]
        if e["mode"] == "fixed":
            return ["tok", e["kind"], "fixed", e.get("fixed", "")]
        if e["mode"] == "trimcut":
            return ["tok", e["kind"], "trimcut", e.get("cut", 0)]
        return ["tok", e["kind"], e["mode"], ""]
    return lab


def doc_label(ref):
    def lab(q):
        return ref["labels"].get(q)
    return lab


# ------------------------------------------------------------------ text generation

VALID_TOKENS = ["=", ";", "|", "(", ")", "[", "]", "{", "}", "{{", "}}", "<", ">", "@left", "@right", "@none",
                "grammar", "g", "gr", "gram", "grammars", "grammar_x", "x", "expr", "a1_b", "go",
                "AB", "NUM", "ID_1", "A_", "$WS", "$STRING", "$A9_",
                '"a"', '"+"', '"a\\"b"', '"\\\\"', '"if"', '"{{"',
                "/a/", "/[a-z]+/", "/a\\/b/", "/a\\//", "/\\\\/", "/ a /", "/x*y/", "/(a|b)*abb/"]
NEAR_MISS = ["A", "$", "$a", "@", "@lef", "@lefty", "@rightx", "@non", '"', '"abc', '""', '"a b"', "/", "/abc", "#", "!",
             "%", "\\", "a-b", "9", "_x", "/*", "/* x", "/* x *", "é", "λx", "x€", "\x7f", "\x01", "Aé", '"é"', "/é/"]
COMMENTS = ["// c\n", "//\n", "//", "/**/", "/***/", "/* **/", "/* a */", "/* a\n b */", "/* * / */", "/* ** ***/", "/*/ */",
            "// é\n", "/* é */", "/****/", "/* x **/ y */"]
SEPS = [" ", "  ", "\t", "\n", "\r\n", "\n\n", " \n ", ""]


def gen_texts(rng, n, dfa, tr):
    texts = []
    # corpus first
    corpus = os.path.join(C.VERIF, "corpus", "C05.jsonl")
    if os.path.exists(corpus):
        for line in open(corpus):
            line = line.strip()
            if line:
                texts.append(json.loads(line)["text"])
    # every single item alone, with and without a trailing separator
    for it in VALID_TOKENS + NEAR_MISS + COMMENTS:
        texts.append(it)
        texts.append(it + "\n")
        texts.append("x " + it + " y\n")
    # every (state, character class) pair driven at least once: access string + representative + tail
    access = bfs_access(dfa)
    reps = sorted({0x09, 0x0A, 0x0D, 0x20, 0x7F, 0xE9, 0x3BB, 0x20AC, 0x1F600} | {c for c in range(0x21, 0x7F)})
    for q, w in sorted(access.items()):
        for c in reps:
            texts.append("".join(chr(x) for x in w) + chr(c) + " x\n")
    # random compositions
    pool = VALID_TOKENS * 3 + NEAR_MISS + COMMENTS
    for _ in range(n):
        k = rng.randint(1, 12)
        parts = []
        for _ in range(k):
            parts.append(rng.choice(pool))
            parts.append(rng.choice(SEPS))
        texts.append("".join(parts))
    # texts whose length is an exact multiple of the reader's buffer size (4096), one less and one more, ending in a
    # one-character token with and without a final newline (layouts hit by the dependency's boundary defect D14 are left to C13)
    from . import c13 as c13mod
    from . import docref as docref_
    ref_ = docref_.build_reference()
    doc_ = Dfa(ref_["start"], docref_.compress_edges(ref_["trans"]))
    for L in (4096, 8192):
        for d_ in (-1, 0, 1):
            for tail in ("", "\n"):
                body = "rule = a b;" + tail
                k = L + d_ - len(body)
                t = ("// pad\n" * (k // 7)) + " " * (k % 7) + body
                if not c13mod.lookahead_at_boundary(t, doc_, lambda q: ref_["labels"].get(q)):
                    texts.append(t)
    # dedupe, drop NUL (reserved by the reader)
    seen, out = set(), []
    for t in texts:
        t = t.replace("\x00", "")
        if t not in seen:
            seen.add(t)
            out.append(t)
    return out


def bfs_access(dfa):
    access = {dfa.start: []}
    frontier = [dfa.start]
    while frontier:
        nxt = []
        for q in frontier:
            for (_, lo, hi, t) in dfa.by.get(q, []):
                if t not in access:
                    access[t] = access[q] + [lo]
                    nxt.append(t)
        frontier = nxt
    return access


# ------------------------------------------------------------------ observation <-> model

def obs_of_hook(res):
    """Canonical observation from the hook's lex response: (tokens, ending)."""
    toks = [[t[0], C.codepoints(t[1]), t[2], t[3], t[4]] for t in res.get("tokens", [])]
    if res.get("outcome") != "ok":
        return toks, ["outcome", res.get("outcome"), res.get("error", res.get("panic", ""))]
    if res["end"] == "eof":
        return toks, "eof"
    err = res.get("error", "")
    pre = "lexical error at f:"
    if err.startswith(pre):
        rest = err[len(pre):]
        try:
            line, col, lex = rest.split(":", 2)
            return toks, ["error", None, int(line), int(col), C.codepoints(lex)]
        except ValueError:
            pass
    return toks, ["other", err]


def same_obs(a, b):
    ta, ea = a
    tb, eb = b
    if ta != tb:
        return False
    if isinstance(ea, list) and isinstance(eb, list) and ea[0] == "error" and eb[0] == "error":
        # the message carries line:column and the lexeme, not the offset
        return ea[2:] == eb[2:]
    return ea == eb


def tok_term(t):
    return "mk_tok %s %s %d %d %d" % (C.coq_string(t[0]), C.coq_nat_list(t[1]), t[2], t[3], t[4])


def case_term(text, obs):
    toks, end = obs
    if end == "eof":
        e = "Some (None : option (N * N * list N))"
    elif isinstance(end, list) and end[0] == "error":
        e = "Some (Some (%d, %d, %s))" % (end[2], end[3], C.coq_nat_list(end[4]))
    else:
        e = "None"
    return "(%s, [%s], %s)" % (C.coq_nat_list(C.codepoints(text)), "; ".join("(" + tok_term(t) + ")" for t in toks), e)


CASES_V = """(* GENERATED: correspondence cases for C05 — the texts the real scanner was run on, with what it returned. *)
From Coq Require Import String List Bool NArith.
From Verif Require Import Reg.Dfa Reg.MaxMunch.
From VerifGen Require Import LexerGo.
Import ListNotations.
Local Open Scope N_scope.
Local Open Scope string_scope.
Definition go_cls := classify go_eval go_skip.
Definition end_agrees (e : ending) (o : option (option (N * N * list N))) : bool :=
  match e, o with
  | EndEOF, Some None => true
  | EndError p u, Some (Some (l, c, v)) => (p_line p =? l)%%N && (p_col p =? c)%%N && nlist_eqb u v
  | _, _ => false
  end.
Definition agrees (c : list N * list token * option (option (N * N * list N))) : bool :=
  let '(text, toks, e) := c in
  let '(mt, me) := tokens (step go_dfa) go_cls (text ++ [10]) in
  tokens_eqb mt toks && end_agrees me e.
Definition cases : list (list N * list token * option (option (N * N * list N))) := [
%s
].
Definition M := Eval vm_compute in mismatches agrees 0 cases.
Print M.
"""


def run_cases(name, texts, observations, shard=250):
    """Evaluate the Coq model on the cases; returns the list of indices where model and observation differ,
    or None if coqc failed."""
    paths, offs = [], []
    for s in range(0, len(texts), shard):
        body = ";\n".join(case_term(t, o) for t, o in zip(texts[s:s + shard], observations[s:s + shard]))
        path = os.path.join(C.GEN, "%s_%d.v" % (name, s // shard))
        with open(path, "w") as f:
            f.write(CASES_V % body)
        paths.append(path)
        offs.append(s)
    bad = []
    for (ok, out), s in zip(C.coqc_many(paths), offs):
        if not ok:
            return None, out
        m = C.parse_mismatches(out)
        if m is None:
            return None, out
        bad.extend(s + x for x in m)
    return bad, ""


# ------------------------------------------------------------------ the check

def regen():
    tr = translate()
    ref = docref.build_reference()
    C.write_if_changed(os.path.join(C.GEN, "LexerGo.v"), lexer_go_v(tr))
    C.write_if_changed(os.path.join(C.GEN, "DocDfa.v"), doc_dfa_v(ref))
    return tr, ref


def check(tier):
    rep = C.Report("C05", tier, "proof")
    rng = C.rng_for("C05")
    try:
        tr = translate()
    except C.BuildError as e:
        rep.obligation("translate lexer.go", False)
        rep.violation("translator", {"theorem": "gen/LexerGo.v cannot be regenerated", "detail": str(e)}, no_input=True)
        return rep.finish()
    ref = docref.build_reference()
    C.write_if_changed(os.path.join(C.GEN, "LexerGo.v"), lexer_go_v(tr))
    C.write_if_changed(os.path.join(C.GEN, "DocDfa.v"), doc_dfa_v(ref))
    rep.cov["reference_overrides"] = ref["overrides_applied"]
    rep.cov["unspecified"] = docref.load_overrides().get("unspecified", [])

    go = Dfa(0, tr["edges"])
    doc = Dfa(ref["start"], docref.compress_edges(ref["trans"]))
    glab, dlab = go_label(tr), doc_label(ref)

    hook = C.Hook()

    # (a) translator self-check: the translated table is executed against the Go function
    pairs = []
    for (s, lo, hi, t) in go.edges:
        for c in range(lo, hi + 1):
            pairs.append([s, c])
    states = sorted(go.states() | {60, 99})
    for s in states:
        for c in (0, 1, 0x7F, 0x80, 0xE9, 0x3BB, 0xFFFF, 0x10FFFF):
            pairs.append([s, c])
        for _ in range(40):
            pairs.append([s, rng.randint(0, 0x10FFFF)])
            pairs.append([s, rng.randint(0, 0x7F)])
    res = hook.call({"op": "advance_probe", "pairs": pairs})
    bad = [(p, n) for p, n in zip(pairs, res.get("next", [])) if (go.step(p[0], p[1]) if go.step(p[0], p[1]) is not None else -1) != n]
    rep.obligation("translation self-check: advanceDFA == translated table on %d pairs" % len(pairs), not bad and res.get("outcome") == "ok")
    if bad:
        rep.violation("translator-selfcheck", {"theorem": "gen/LexerGo.v does not reproduce advanceDFA", "pairs": bad[:20]}, no_input=True)

    # (b) proof obligations: Props/C05.v on the regenerated tables
    ok, log = C.coq_make(["theories/Props/C05.vo"])
    thms = ["advance_is_documented", "start_not_accepting", "scanner_stream", "scanner_stream_unique", "scanner_stream_example"]
    for t in thms:
        rep.obligation("Props/C05.v: " + t, ok)
    closed = log.count("Closed under the global context")
    rep.cov["print_assumptions"] = "Closed under the global context x%d" % closed if ok else "n/a"

    # (c) search side: product of the translated automaton with the documented one
    witness, npairs = product_search(go, lambda q: json.dumps(glab(q)), doc, lambda q: json.dumps(dlab(q)))
    rep.cov["states"] = len(go.states())
    rep.cov["product_pairs_explored"] = npairs
    rep.cov["code_points_covered"] = "all of N via %d atoms (CharSet.rep reflection)" % len({0} | go.bounds() | doc.bounds())

    # (d) correspondence: real scanner vs Coq model (cases) and vs the documented stream (search oracle)
    n_random = 300 if tier == "quick" else 4000
    texts = gen_texts(rng, n_random, go, tr)
    observations = []
    ref_disagree = []
    dist = {"eof": 0, "error": 0, "other": 0, "tokens": 0, "chars": 0}
    for t in texts:
        o = obs_of_hook(hook.call({"op": "lex", "text": t}))
        observations.append(o)
        dist["tokens"] += len(o[0])
        dist["chars"] += len(t)
        dist["eof" if o[1] == "eof" else ("error" if isinstance(o[1], list) and o[1][0] == "error" else "other")] += 1
        r = max_munch(doc, dlab, C.codepoints(t) + [10])
        if not same_obs(o, r):
            ref_disagree.append((t, o, r))
    # ---- text that is no text: a malformed UTF-8 byte is "not a token" wherever it stands - after a token, inside one, inside a
    #      comment, a string or a pattern - and must be reported at its position (the prefixes are viable beginnings of a specification)
    byte_bad = []
    BYTE_CASES = [(b'grammar g; abc', b'\xff', b'def = "x";'), (b'grammar g; abc ', b'\xff', b'def = "x";'), (b'grammar g // caf', b'\xe9', b'\nab = "x";'),
                  (b'grammar g;\nab = "x', b'\xff', b'";'), (b'grammar g;\nab = /x', b'\x80', b'/;'), (b'grammar g;\nab', b'\xc3', b' = "x";'),
                  (b'grammar g; /* c ', b'\xf0\x9f', b' */ ab = "x";'), (b'grammar g;\nab = "x"', b'\xe9', b'\ncd = "y";')]
    for pre, bad_, post in BYTE_CASES:
        rb = hook.call({"op": "parse_bytes", "text_hex": (pre + bad_ + post).hex()})
        msg = (rb.get("error") or {}).get("message", "")
        ptxt = pre.decode("utf-8")
        want = "f:%d:%d: invalid utf-8 character" % (ptxt.count("\n") + 1, len(ptxt) - (ptxt.rfind("\n") + 1) + 1)
        if want not in msg:
            byte_bad.append(((pre + bad_ + post), msg, want))
    hook.close()
    badidx, out = run_cases("cases_C05", texts, observations)
    rep.cov["evaluations"] = len(texts)
    rep.cov["distinct_nontrivial"] = len({json.dumps(o[0]) for o in observations if len(o[0]) >= 2})
    rep.cov["rule"] = ("texts = corpus + every token / near-miss / comment alone and embedded + every reachable state x "
                       "representative character + random compositions; non-trivial = at least two tokens in the stream, distinct by token stream")
    rep.cov["input_distribution"] = dist
    rep.cov["samples"] = [{"text": t, "observed": o} for t, o in list(zip(texts, observations))[5:8]]
    if badidx is None:
        rep.obligation("correspondence cases compile", False)
        rep.violation("cases", {"theorem": "gen/cases_C05_*.v does not compile", "log": out[-3000:]}, no_input=True)
        badidx = []
    else:
        rep.obligation("correspondence: NextToken == MaxMunch.tokens go_dfa on %d texts" % len(texts), not badidx)
    rep.obligation("a malformed byte is reported where it stands (%d placements: after and inside a token, a comment, a string, a pattern)" % len(BYTE_CASES), not byte_bad)
    for data, msg, want in byte_bad[:2]:
        rep.failure("malformed-byte", {"malformed-byte"}, {"input_bytes_hex": data.hex(), "input_text_latin1": data.decode("latin-1"), "message": msg[:300],
                                                           "why": "expected " + want})

    # ---- verdicts
    reported = set()
    for t, o, r in sorted(ref_disagree, key=lambda x: len(x[0])):
        tags = classify_failure(t, o, r, doc, dlab)
        key = tuple(sorted(tags))
        if key in reported:
            continue
        reported.add(key)
        rep.failure("stream", tags, {"input_text": t, "input_codepoints": C.codepoints(t), "observed": o,
                                     "expected_by_documented_automaton": r, "classes": sorted(tags),
                                     "replay": "./check C05 --replay <this file>"})
    if witness is not None and not ref_disagree:
        # the tables differ but no generated text shows it: drive the witness and its continuations
        found = drive_witness(witness, go, doc, dlab, rep)
        if not found:
            rep.violation("bisim", {"theorem": "Props/C05.v advance_is_documented", "witness_codepoints": witness,
                                    "go_label": glab(go.run(witness)), "doc_label": dlab(doc.run(witness))}, no_input=True)
    elif not ok and not ref_disagree and not rep.violations:
        rep.violation("proof", {"theorem": "Props/C05.v", "log": log[-3000:]}, no_input=True)
    for i in badidx[:3]:
        if not any(texts[i] == t for t, _, _ in ref_disagree):
            rep.violation("model-correspondence", {"correspondence": "NextToken vs MaxMunch.tokens (Coq model)",
                                                   "input_text": texts[i], "observed": observations[i]}, no_input=True)
    return rep.finish()


def classify_failure(text, obs, ref, doc, dlab):
    """Tags used to match known findings and to report distinct failures once each."""
    if same_obs(obs, max_munch(doc, dlab, C.codepoints(text), eval_at_eof=False)) or \
            same_obs(obs, max_munch(doc, dlab, C.codepoints(text) + [10], eval_at_eof=False)):
        return {"pending-lexeme-dropped-at-end-of-input"}
    to, tr_ = obs[0], ref[0]
    i = 0
    while i < len(to) and i < len(tr_) and to[i] == tr_[i]:
        i += 1
    exp = tr_[i][0] if i < len(tr_) else "end:" + json.dumps(ref[1])[:12]
    got = to[i][0] if i < len(to) else "end:" + json.dumps(obs[1])[:12]
    return {"stream:expected=%s:got=%s" % (exp, got)}


def strings_reaching(dfa, target, maxlen=6, limit=4000):
    """Strings (code point lists) over printable representatives that lead the automaton from its start to [target]."""
    reps = [0x22, 0x2F, 0x5C, 0x2A, 0x61, 0x41, 0x30, 0x20, 0x5F, 0x24, 0x40]
    out, frontier, n = [], [([], dfa.start)], 0
    for _ in range(maxlen):
        nxt = []
        for w, q in frontier:
            for c in reps:
                t = dfa.step(q, c)
                if t is None:
                    continue
                n += 1
                if n > limit:
                    return out
                nxt.append((w + [c], t))
                if t == target:
                    out.append(w + [c])
        frontier = nxt
    return out


def drive_witness(witness, go, doc, dlab, rep):
    hook = C.Hook()
    found = False
    # the tables may agree on every transition and differ only in how a lexeme is cut: try the strings reaching that state
    q = go.run(witness)
    if q is not None:
        for w in sorted(strings_reaching(go, q), key=len):
            text = "".join(chr(c) for c in w) + " x\n"
            o = obs_of_hook(hook.call({"op": "lex", "text": text}))
            r = max_munch(doc, dlab, C.codepoints(text) + [10])
            if not same_obs(o, r):
                rep.failure("stream", {"stream"}, {"input_text": text, "input_codepoints": C.codepoints(text), "observed": o,
                                                   "expected_by_documented_automaton": r})
                hook.close()
                return True
    tails = ["", " ", "\n", " x\n", "/ x\n", "*/ x\n", "\"\n", "/\n"]
    for tail in tails:
        text = "".join(chr(c) for c in witness) + tail
        o = obs_of_hook(hook.call({"op": "lex", "text": text}))
        r = max_munch(doc, dlab, C.codepoints(text) + [10])
        if not same_obs(o, r):
            rep.failure("stream", {"stream"}, {"input_text": text, "input_codepoints": C.codepoints(text), "observed": o,
                                               "expected_by_documented_automaton": r})
            found = True
            break
    hook.close()
    return found


def replay(path):
    d = json.load(open(path))
    if "input_text" not in d:
        print("replay names an obligation, not an input:", d.get("theorem") or d.get("correspondence"))
        return 1
    tr = translate()
    ref = docref.build_reference()
    doc = Dfa(ref["start"], docref.compress_edges(ref["trans"]))
    hook = C.Hook()
    o = obs_of_hook(hook.call({"op": "lex", "text": d["input_text"]}))
    hook.close()
    r = max_munch(doc, doc_label(ref), C.codepoints(d["input_text"]) + [10])
    print("observed:", json.dumps(o))
    print("expected:", json.dumps(r))
    same = same_obs(o, r)
    print("SAME" if same else "DIFFERENT")
    return 0 if same else 1
