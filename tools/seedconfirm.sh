#!/bin/sh
# usage: seedconfirm.sh <seed-name>...   — confirms each seeded change in a scratch worktree of /repo's HEAD:
# the patch applies, the tree builds, the unedited test suite passes with it, the demonstration fails with it and passes without it.
# When seeded/<name>/confirm.sh exists it IS the demonstration (`sh confirm.sh <worktree>`: exit 0 = the property holds on that tree,
# non-zero = the regression is visible); it is run once with the patch applied and once after `git apply -R`, and the generic
# demo_test.go / demo.sh handling is skipped.
export GOFLAGS=-mod=mod GOPROXY=off
for NAME in "$@"; do
  D=/verif/seeded/$NAME
  WT=/tmp/seedcf/$NAME
  rm -rf "$WT"; git -C /repo worktree prune
  git -C /repo worktree add -q --detach "$WT" HEAD || { echo "$NAME: worktree failed"; continue; }
  (
    cd "$WT" || exit 1
    git apply "$D/patch.diff" || { echo "$NAME: PATCH-DOES-NOT-APPLY"; exit 1; }
    go build ./... || { echo "$NAME: BUILD-FAILS"; exit 1; }
    if go test -vet=off -count=1 ./... > /tmp/seedcf/$NAME.suite 2>&1; then S=pass; else S=FAIL; fi
    if [ -f "$D/confirm.sh" ]; then
      if sh "$D/confirm.sh" "$WT" > /tmp/seedcf/$NAME.cfwith 2>&1; then W3=pass; else W3=FAIL; fi
      LEFT=$(git status --porcelain | grep -v '^ M ')
      git apply -R "$D/patch.diff"
      if sh "$D/confirm.sh" "$WT" > /tmp/seedcf/$NAME.cfwithout 2>&1; then WO3=pass; else WO3=FAIL; fi
      LEFT=$LEFT$(git status --porcelain)
      [ -z "$LEFT" ] || echo "$NAME: warning: confirm.sh left the worktree changed: $LEFT" >&2
      echo "$NAME: suite-with-change=$S confirm.sh(with=$W3 without=$WO3)"
      echo "suite-with-change=$S confirm.sh(with=$W3 without=$WO3)" > "$D/confirm.txt"
      exit 0
    fi
    DIR=$(python3 -c "import json,os,sys; print(os.path.dirname(json.load(open('$D/meta.json'))['files'][0]))" 2>/dev/null)
    W=none; WO=none
    if [ -f "$D/demo_test.go" ]; then
      PKGDIR=$(grep -o 'internal/[a-z/]*\|cmd/[a-z/]*' "$D/demo_test.go" | grep -v '\.go' | head -1)
      while [ -n "$PKGDIR" ] && [ ! -d "$WT/$PKGDIR" ] && [ "$PKGDIR" != "${PKGDIR%/*}" ]; do PKGDIR=${PKGDIR%/*}; done
      [ -d "$WT/$PKGDIR" ] && [ -n "$PKGDIR" ] || PKGDIR=$DIR
      PK=$(sed -n 's/^package \([a-z_]*\).*/\1/p' "$D/demo_test.go" | head -1)
      # choose the directory whose package name matches
      for cand in "$PKGDIR" "$DIR"; do
        if grep -qs "^package $PK\$" "$WT/$cand"/*.go 2>/dev/null; then PKGDIR=$cand; break; fi
      done
      cp "$D/demo_test.go" "$WT/$PKGDIR/zz_seed_demo_test.go"
      for f in "$D"/*.grammar; do [ -f "$f" ] && cp "$f" "$WT/$PKGDIR/"; done
      TESTS=$(sed -n 's/^func \(Test[A-Za-z0-9_]*\).*/\1/p' "$D/demo_test.go" | paste -sd'|')
      if go test -vet=off -count=1 -run "^($TESTS)\$" "./$PKGDIR" > /tmp/seedcf/$NAME.with 2>&1; then W=pass; else W=FAIL; fi
      git apply -R "$D/patch.diff"
      if go test -vet=off -count=1 -run "^($TESTS)\$" "./$PKGDIR" > /tmp/seedcf/$NAME.without 2>&1; then WO=pass; else WO=FAIL; fi
    fi
    W2=none; WO2=none
    if [ -f "$D/demo.sh" ]; then
      git apply -R --check "$D/patch.diff" 2>/dev/null || git apply "$D/patch.diff"
      if sh "$D/demo.sh" "$WT" > /tmp/seedcf/$NAME.shwith 2>&1; then W2=pass; else W2=FAIL; fi
      git apply -R "$D/patch.diff"
      if sh "$D/demo.sh" "$WT" > /tmp/seedcf/$NAME.shwithout 2>&1; then WO2=pass; else WO2=FAIL; fi
    fi
    echo "$NAME: suite-with-change=$S demo_test(with=$W without=$WO) demo.sh(with=$W2 without=$WO2)"
    echo "suite-with-change=$S demo_test(with=$W without=$WO) demo.sh(with=$W2 without=$WO2)" > "$D/confirm.txt"
  )
  git -C /repo worktree remove --force "$WT"
done
